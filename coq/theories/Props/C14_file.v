(* C14 on FILE BYTES - channel.dtype and len(channel) describe what reads return.
   Statements only; definitions and proofs in Proofs/DtypeFile.v.

   Props/C14.v is about the dtype calculus alone (abstract raw kinds and graphs);
   Props/C13_file.v reads SCALED data from the bytes of a serialised file; Props/C14_read.v
   counts the raw values.  Here they are joined: the dtype channel.dtype reports is computed
   from what the FILE says, and every successful scaled read of Proofs/ScaleFile.v returns
   an array of that dtype and - for full reads - of len(channel) elements.

   THE BRIDGE (every definition is restated by an _unfold theorem)
     dtype_of_type ty          tds_data_types[ty].nptype among the 13 numeric NumPy dtypes;
                               equal, row by row, to the nptype column of the table reflected
                               from nptdms.types on every run ([dtype_of_type_table]); the
                               dtype of the array ScaleFile.decode_values builds for the type
                               ([decode_values_dtype])
     rawkind_of_type odt       obj.data_type as ScaleDtype.rawkind (None -> RUntyped, String,
                               TimeStamp, DaqMxRawData, nptype -> RNum; a type without nptype
                               -> RUntyped: _raw_data_dtype says V8 for both)
     scaler_dtypes_file sts    obj.scaler_data_types as scale id -> NumPy dtype; None when a
                               scaler type has no nptype (DAQmx type code 0xFFFFFFFF =
                               TimeStamp), the declared dtype is then Err EUnmodelled
     declared_dtype_file data path raw_ts
                               TdmsFile.read(data, raw_timestamps=raw_ts)[g][c].dtype =
                               metadata pass, hierarchy, the channel found by its path, then
                               ScaleDtype.chan_dtype true on: the kind of ch_dtype, the graph
                               ScaleGraph.get_scaling reads from the channel's properties, the
                               properties stored under the channel's canonical GROUP PATH
                               (else {}), the root's (else {}) - the very dictionaries
                               ScaleFile.scale_with scales with - and the scaler dtypes.
                               Outer Base.Res: the reader raised; inner ScaleGraph.res: what
                               .dtype returned or raised (Err EUnmodelled: a scaling-relevant
                               bool / timestamp property, a scaler type without nptype).
     declared_dtype_file_open  through TdmsFile.open: equal ([declared_dtype_file_open_eq])
     raw_dtype_file            channel._raw_data_dtype();  len_file: len(channel)
     unscaled_read_eager / unscaled_window_eager / unscaled_read_lazy
                               read_data(..., scaled=False): the decoded receiver content

   THE PROPERTY
     reads_have_declared_dtype_file
        under read_correct's hypotheses + "no segment's object list names a path twice",
        for EVERY channel c, raw_ts, and every scaled read that returns an array v -
        channel[:] on TdmsFile.read, read_data(o, l) on TdmsFile.read for ALL o l,
        read_data(offs, len) on TdmsFile.open for ALL offs >= 0 and len (None or >= 0):
        full, partial, EMPTY (l = 0, offset at or past the end) alike -
            declared_dtype_file bytes path raw_ts = Ok (Ok (XNum (dtype_of v))).
        Composition of C14.dtype_agrees and C14.eval_has_actual_dtype with C13_file's reads;
        "the file's raw data has the kind and the scaler dtypes the metadata declares" is
        DERIVED ([file content] decode_values_dtype; [no scaler types in a file without
        DAQmx segments] plain_file_no_scalers), not assumed.
     reads_have_declared_dtype_file_daqmx
        the same for the eager reads of files WITH DAQmx segments (read_correct_daqmx's
        hypotheses): DaqMxRawData channels and ordinary channels alike.  The scaler dtypes
        the metadata declares are those of the scaler data: DERIVED from the file
        (decode_scalers against scaler_dtypes_file for DaqMxRawData channels;
        channel_scalers_typed - an invariant of the metadata pass: an object whose type is
        not DaqMxRawData only ever gets scaler types equal to its own type - for the rest).
     unscaled_reads_have_raw_dtype_file   scaled=False reads have _raw_data_dtype()
     full_read_length_file                the scaled full read, eager and lazy, has
                                          len_file = ch_len c elements (C14_read's count,
                                          carried through scaling by C13's elementwise)
     window_read_length_file              windows have min(l, len - o) elements
     empty_same_dtype_file                if the channel reads at all, EVERY empty window is
                                          returned (no error), has no elements and has the
                                          dtype of the full read; reads_same_dtype_file:
                                          any two successful reads agree
     nonnumeric_dtype_file                strings -> object, timestamps -> datetime64[us] or
                                          the TimestampArray struct with raw_timestamps,
                                          untyped -> V8.  DTYPE LEVEL ONLY: ScaleGraph has no
                                          value model for these types (the file-level scaled
                                          reads return Err EUnmodelled for them), so the
                                          statement is about ScaleDtype.read_dtype - every
                                          read operation of Model/ScaleDtype.v - with the
                                          channel description computed from the file;
                                          dtype_level_reads_file: the same for ANY scaling in
                                          scope and any raw kind (complex included), through
                                          C14.reads_have_channel_dtype.

   NOT COVERED.  Lazy reads of DAQmx channels (Model/LazyBytes has plain data only);
   truncated files; slices with a step and data_chunks (C03_read relates them to windows of
   the RAW data; not re-composed with scaling here); value-level statements for strings,
   timestamps and complex data (no numeric model).

   EXAMPLES.  sx_file / dqs_file (Proofs/ScaleFile.v, replayed by dev/c13_file_replay.py) and
   nn_file (string / timestamp / untyped / complex64 channels):
       cd /verif && PYTHONPATH=/repo /venv/bin/python dev/c14_file_replay.py
   rebuilds nn_file's bytes and prints channel.dtype, len and the dtype of full and empty
   reads in both modes with and without raw_timestamps.  On every run of ./check C14,
   file_dtype_code (declared_dtype_file on the BYTES + the dtype of scaled_read_eager's
   array) is compared with channel.dtype and read_data().dtype of npTDMS on a sample of the
   generated files (harness/c14.py file_dtype_tie). *)
From Coq Require Import String Ascii.
From Coq Require Import List ZArith Bool PrimFloat.
From Coq Require Import Init.Byte.
Import ListNotations.
From NpTdms Require Import Base.Bytes Base.Res Base.PySlice Model.Tokens Model.TokensWf Model.SegState
     Model.Layout Model.Reader Model.FileSyn Model.LazyRead Model.LazyBytes
     Proofs.LayoutProofs Proofs.FileSynProofs Proofs.ReadCorrect Proofs.ReadCorrectDaqmx
     Proofs.LazyEagerView Proofs.LazyEagerTop Proofs.ScaleFile Proofs.DtypeFile.
From NpTdms Require Gen.NumpyPromote Gen.TypeTable Model.ScaleGraph.
From NpTdms Require Import Model.ScaleDtype.
Module SG := ScaleGraph.
Module NP := NumpyPromote.
Local Open Scope Z_scope.

(* ---- 1. the bridge ------------------------------------------------------------------- *)

Theorem dtype_of_type_unfold : forall ty,
  dtype_of_type ty =
  if ty =? 1 then Some NP.Int8 else if ty =? 2 then Some NP.Int16
  else if ty =? 3 then Some NP.Int32 else if ty =? 4 then Some NP.Int64
  else if ty =? 5 then Some NP.UInt8 else if ty =? 6 then Some NP.UInt16
  else if ty =? 7 then Some NP.UInt32 else if ty =? 8 then Some NP.UInt64
  else if (ty =? 9) || (ty =? 0x19) then Some NP.Float32
  else if (ty =? 10) || (ty =? 0x1A) then Some NP.Float64
  else if ty =? T_BOOL then Some NP.Bool
  else if ty =? T_C64 then Some NP.Complex64
  else if ty =? T_C128 then Some NP.Complex128
  else None.
Proof.
  intros ty. unfold dtype_of_type, kind_of_type.
  repeat match goal with |- context [if ?c then _ else _] => destruct c; [reflexivity|] end.
  reflexivity.
Qed.

(* ... which is the nptype column of nptdms.types.tds_data_types as reflected on this run:
   for every row (enum value, class, size, dtype string, struct code) of Gen/TypeTable.v the
   NumPy code of dtype_of_type is the dtype string without its byte-order character *)
Theorem dtype_of_type_table :
  forallb (fun row : Z * string * option Z * option string * option string =>
             let '(ty, _, _, np, _) := row in
             ostring_eqb (option_map np_code (dtype_of_type ty)) (option_map drop_order np))
          TypeTable.type_table = true.
Proof. exact DtypeFile.dtype_of_type_table. Qed.

(* ... and the dtype of the typed array C13_file's bridge decodes for the type *)
Theorem decode_values_dtype : forall ty vs v,
  decode_values ty vs = Some v -> dtype_of_type ty = Some (SG.dtype_of v).
Proof. exact DtypeFile.decode_values_dtype. Qed.

Theorem rawkind_of_type_unfold : forall odt,
  rawkind_of_type odt =
  match odt with
  | None => RUntyped
  | Some t =>
      if t =? T_STRING then RString
      else if t =? T_TIME then RTimestamp
      else if t =? T_DAQMX then RDaqmx
      else match dtype_of_type t with Some d => RNum d | None => RUntyped end
  end.
Proof. reflexivity. Qed.

Theorem file_scalers_unfold : forall c,
  file_scalers c =
  match ch_scalers c with
  | None => Some []
  | Some sts =>
      (fix go (l : list (Z * Z)) : option (list (nat * NP.dtype)) :=
         match l with
         | [] => Some []
         | (id, ty) :: r =>
             match dtype_of_type ty, go r with
             | Some d, Some l' => Some ((Z.to_nat id, d) :: l')
             | _, _ => None
             end
         end) sts
  end.
Proof. reflexivity. Qed.

Theorem declared_dtype_file_unfold : forall data path raw_ts,
  declared_dtype_file data path raw_ts =
  (do st <- rd_metadata data false (Some (blen data)) false;
   do h <- build_hierarchy (rs_om st);
   do c <- match find (fun c => bytes_eqb (ch_path c) path) (all_channels h) with
           | Some c => Ok c | None => Err EKey end;
   Ok (match props_of_props (ch_props c),
             props_of_props (match alookup (path_to_string (Some (ch_group c)) None) (rs_om st) with
                             | Some m => om_props m | None => [] end),
             props_of_props (match alookup [SB] (rs_om st) with Some m => om_props m | None => [] end),
             file_scalers c with
       | Some cp, Some gp, Some fp, Some scs =>
           SG.bind (SG.get_scaling cp gp fp)
                   (fun sc => chan_dtype true {| ckind := rawkind_of_type (ch_dtype c); craw_ts := raw_ts;
                                                cscaling := sc; cscalers := scs |})
       | _, _, _, _ => SG.Err SG.EUnmodelled
       end)).
Proof.
  intros data path raw_ts. unfold declared_dtype_file, declared_with, chan_of_file, find_channel,
    group_props_of, root_props_of.
  destruct (rd_metadata data false (Some (blen data)) false) as [st|e]; [|reflexivity]. cbn [bind].
  destruct (build_hierarchy (rs_om st)) as [h|e]; [|reflexivity]. cbn [bind].
  destruct (find _ (all_channels h)) as [c|]; [|reflexivity]. cbn [bind]. f_equal.
  destruct (props_of_props (ch_props c)); [|reflexivity].
  destruct (props_of_props _); [|reflexivity]. destruct (props_of_props _); [|reflexivity].
  destruct (file_scalers c); [|reflexivity].
  destruct (SG.get_scaling _ _ _); reflexivity.
Qed.

Theorem raw_dtype_file_unfold : forall data path raw_ts,
  raw_dtype_file data path raw_ts =
  (do st <- rd_metadata data false (Some (blen data)) false;
   do h <- build_hierarchy (rs_om st);
   do c <- find_channel h path;
   Ok (raw_data_dtype true (rawkind_of_type (ch_dtype c)) raw_ts)).
Proof. reflexivity. Qed.

Theorem len_file_unfold : forall data path,
  len_file data path =
  (do st <- rd_metadata data false (Some (blen data)) false;
   do h <- build_hierarchy (rs_om st);
   do c <- find_channel h path;
   Ok (ch_len c)).
Proof. reflexivity. Qed.

Theorem unscaled_read_eager_unfold : forall data path,
  unscaled_read_eager data path =
  (do st <- rd_metadata data false (Some (blen data)) false;
   do h <- build_hierarchy (rs_om st);
   do recv <- rd_eager st h data;
   do c <- find_channel h path;
   Ok (raw_of_cdata c (match alookup (ch_path c) recv with Some d => d | None => None end))).
Proof. reflexivity. Qed.

Theorem unscaled_window_eager_unfold : forall data path o l,
  unscaled_window_eager data path o l =
  (do st <- rd_metadata data false (Some (blen data)) false;
   do h <- build_hierarchy (rs_om st);
   do recv <- rd_eager st h data;
   do c <- find_channel h path;
   Ok (option_map (SG.window_raw o l)
         (raw_of_cdata c (match alookup (ch_path c) recv with Some d => d | None => None end)))).
Proof. reflexivity. Qed.

Theorem unscaled_read_lazy_unfold : forall data path offs len,
  unscaled_read_lazy data path offs len =
  (do st <- rd_metadata data false (Some (blen data)) true;
   do h <- build_hierarchy (rs_om st);
   do c <- find_channel h path;
   do vs <- lz_read_bytes data (ch_path c) offs len;
   Ok (raw_of_cdata c (match ch_dtype c with Some _ => Some (CData vs) | None => None end))).
Proof. reflexivity. Qed.

(* ---- 2. channel.dtype / len(channel) of a serialised file ---------------------------- *)

(* a function of the metadata pass's result; the same through TdmsFile.open *)
Theorem declared_dtype_file_ser : forall segs st h c raw_ts,
  wf_file segs ->
  sm_run segs false = Ok st ->
  build_hierarchy (rs_om st) = Ok h ->
  om_paths_canonical (rs_om st) ->
  In c (all_channels h) ->
  declared_dtype_file (ser_file segs) (ch_path c) raw_ts = Ok (declared_with (rs_om st) c raw_ts) /\
  declared_dtype_file_open (ser_file segs) (ch_path c) raw_ts =
  declared_dtype_file (ser_file segs) (ch_path c) raw_ts /\
  raw_dtype_file (ser_file segs) (ch_path c) raw_ts =
    Ok (raw_data_dtype true (rawkind_of_type (ch_dtype c)) raw_ts) /\
  len_file (ser_file segs) (ch_path c) = Ok (ch_len c).
Proof.
  intros segs st h c raw_ts H1 H2 H3 H4 H5.
  exact (conj (DtypeFile.declared_dtype_file_ser segs st h H1 H2 H3 H4 c raw_ts H5)
        (conj (DtypeFile.declared_dtype_file_open_eq segs st h H1 H2 H3 H4 c raw_ts H5)
        (conj (DtypeFile.raw_dtype_file_ser segs st h H1 H2 H3 H4 c raw_ts H5)
              (DtypeFile.len_file_ser segs st h H1 H2 H3 H4 c H5)))).
Qed.

(* a file without DAQmx segments carries no scaler types *)
Theorem plain_file_no_scalers : forall segs st h chunkss c,
  sm_run segs false = Ok st ->
  build_hierarchy (rs_om st) = Ok h ->
  segs_encode (rs_segments st) segs chunkss ->
  om_paths_canonical (rs_om st) ->
  In c (all_channels h) -> ch_scalers c = None.
Proof.
  intros segs st h chunkss c H1 H2 H3 H4 H5.
  exact (DtypeFile.plain_file_no_scalers segs false st h chunkss H1 H2 H3 H4 c H5).
Qed.

(* in ANY file the metadata pass accepts, a channel whose type has a NumPy dtype has scaler
   dtypes: none, or (a DAQmx index with an explicit type) its own *)
Theorem channel_scalers_typed : forall segs st h c dt d,
  sm_run segs false = Ok st ->
  build_hierarchy (rs_om st) = Ok h ->
  om_paths_canonical (rs_om st) ->
  In c (all_channels h) ->
  ch_dtype c = Some dt -> dtype_of_type dt = Some d ->
  exists scs, file_scalers c = Some scs.
Proof.
  intros segs st h c dt d H1 H2 H3 H4 H5 H6.
  exact (DtypeFile.channel_scalers_typed segs false st h c dt d H1 H2 H3 H4 H5 H6).
Qed.

(* ---- 3. THE PROPERTY: every successful scaled read has the declared dtype ------------- *)

Theorem reads_have_declared_dtype_file : forall segs st h chunkss c raw_ts,
  wf_file segs ->
  sm_run segs false = Ok st ->
  build_hierarchy (rs_om st) = Ok h ->
  segs_encode (rs_segments st) segs chunkss ->
  om_paths_canonical (rs_om st) ->
  typed_objects_are_channels (rs_om st) ->
  Forall (fun g => NoDup (map so_path (sg_objs g))) (rs_segments st) ->
  In c (all_channels h) ->
  (* channel[:] / channel.data on TdmsFile.read *)
  (forall v, scaled_read_eager (ser_file segs) (ch_path c) = Ok (SG.Ok v) ->
             declared_dtype_file (ser_file segs) (ch_path c) raw_ts = Ok (SG.Ok (XNum (SG.dtype_of v)))) /\
  (* read_data(o, l) on TdmsFile.read: every window, empty ones included *)
  (forall o l v, scaled_window_eager (ser_file segs) (ch_path c) o l = Ok (SG.Ok v) ->
             declared_dtype_file (ser_file segs) (ch_path c) raw_ts = Ok (SG.Ok (XNum (SG.dtype_of v)))) /\
  (* read_data(offs, len) on TdmsFile.open: every window, empty ones included *)
  (forall offs len v, 0 <= offs -> (match len with None => True | Some l => 0 <= l end) ->
             scaled_read_lazy (ser_file segs) (ch_path c) offs len = Ok (SG.Ok v) ->
             declared_dtype_file (ser_file segs) (ch_path c) raw_ts = Ok (SG.Ok (XNum (SG.dtype_of v)))).
Proof.
  intros segs st h chunkss c raw_ts H1 H2 H3 H4 H5 H6 H7 H8.
  exact (DtypeFile.reads_dtype_plain segs st h chunkss H1 H2 H3 H4 H5 H6 H7 c raw_ts H8).
Qed.

(* files with DAQmx segments (read_correct_daqmx's hypotheses), eager reads *)
Theorem reads_have_declared_dtype_file_daqmx : forall segs st h chunkss c raw_ts,
  wf_file segs ->
  sm_run segs false = Ok st ->
  build_hierarchy (rs_om st) = Ok h ->
  segs_content (rs_segments st) segs chunkss ->
  om_paths_canonical (rs_om st) ->
  typed_objects_are_channels (rs_om st) ->
  In c (all_channels h) ->
  (forall v, scaled_read_eager (ser_file segs) (ch_path c) = Ok (SG.Ok v) ->
             declared_dtype_file (ser_file segs) (ch_path c) raw_ts = Ok (SG.Ok (XNum (SG.dtype_of v))) /\
             Z.of_nat (SG.vlen v) = ch_len c) /\
  (forall o l v, scaled_window_eager (ser_file segs) (ch_path c) o l = Ok (SG.Ok v) ->
             declared_dtype_file (ser_file segs) (ch_path c) raw_ts = Ok (SG.Ok (XNum (SG.dtype_of v))) /\
             SG.vlen v = Nat.min l (Z.to_nat (ch_len c) - o)).
Proof.
  intros segs st h chunkss c raw_ts H1 H2 H3 H4 H5 H6 H7. split.
  - intros v H. split.
    + exact (DtypeFile.eager_dtype_content segs st h chunkss H1 H2 H3 H4 H5 H6 c raw_ts v H7 H).
    + exact (DtypeFile.eager_length_content segs st h chunkss H1 H2 H3 H4 H5 H6 c v H7 H).
  - intros o l v H. split.
    + exact (DtypeFile.eager_window_dtype_content segs st h chunkss H1 H2 H3 H4 H5 H6 c raw_ts o l v H7 H).
    + exact (DtypeFile.eager_window_length_content segs st h chunkss H1 H2 H3 H4 H5 H6 c o l v H7 H).
Qed.

(* read_data(..., scaled=False): the decoded raw values, of dtype _raw_data_dtype() *)
Theorem unscaled_reads_have_raw_dtype_file : forall segs st h chunkss c raw_ts raw,
  wf_file segs ->
  sm_run segs false = Ok st ->
  build_hierarchy (rs_om st) = Ok h ->
  segs_encode (rs_segments st) segs chunkss ->
  om_paths_canonical (rs_om st) ->
  typed_objects_are_channels (rs_om st) ->
  Forall (fun g => NoDup (map so_path (sg_objs g))) (rs_segments st) ->
  In c (all_channels h) ->
  (unscaled_read_eager (ser_file segs) (ch_path c) = Ok (Some raw) \/
   (exists o l, unscaled_window_eager (ser_file segs) (ch_path c) o l = Ok (Some raw)) \/
   (exists offs len, 0 <= offs /\ (match len with None => True | Some l => 0 <= l end) /\
                     unscaled_read_lazy (ser_file segs) (ch_path c) offs len = Ok (Some raw))) ->
  exists v, SG.rdata raw = Some v /\ SG.rscalers raw = [] /\
            raw_dtype_file (ser_file segs) (ch_path c) raw_ts = Ok (XNum (SG.dtype_of v)).
Proof.
  intros segs st h chunkss c raw_ts raw H1 H2 H3 H4 H5 H6 H7 H8.
  exact (DtypeFile.unscaled_dtype_plain segs st h chunkss H1 H2 H3 H4 H5 H6 H7 c raw_ts raw H8).
Qed.

(* ---- 4. lengths ------------------------------------------------------------------------ *)

Theorem full_read_length_file : forall segs st h chunkss c,
  wf_file segs ->
  sm_run segs false = Ok st ->
  build_hierarchy (rs_om st) = Ok h ->
  segs_encode (rs_segments st) segs chunkss ->
  om_paths_canonical (rs_om st) ->
  typed_objects_are_channels (rs_om st) ->
  Forall (fun g => NoDup (map so_path (sg_objs g))) (rs_segments st) ->
  In c (all_channels h) ->
  len_file (ser_file segs) (ch_path c) = Ok (ch_len c) /\
  (forall v, scaled_read_eager (ser_file segs) (ch_path c) = Ok (SG.Ok v) -> Z.of_nat (SG.vlen v) = ch_len c) /\
  (forall v, scaled_read_lazy (ser_file segs) (ch_path c) 0 None = Ok (SG.Ok v) -> Z.of_nat (SG.vlen v) = ch_len c).
Proof.
  intros segs st h chunkss c H1 H2 H3 H4 H5 H6 H7 H8.
  exact (conj (DtypeFile.len_file_ser segs st h H1 H2 H3 H5 c H8)
              (DtypeFile.full_read_length_plain segs st h chunkss H1 H2 H3 H4 H5 H6 H7 c H8)).
Qed.

Theorem window_read_length_file : forall segs st h chunkss c,
  wf_file segs ->
  sm_run segs false = Ok st ->
  build_hierarchy (rs_om st) = Ok h ->
  segs_encode (rs_segments st) segs chunkss ->
  om_paths_canonical (rs_om st) ->
  typed_objects_are_channels (rs_om st) ->
  Forall (fun g => NoDup (map so_path (sg_objs g))) (rs_segments st) ->
  In c (all_channels h) ->
  (forall o l v, scaled_window_eager (ser_file segs) (ch_path c) o l = Ok (SG.Ok v) ->
     SG.vlen v = Nat.min l (Z.to_nat (ch_len c) - o)) /\
  (forall offs len v, 0 <= offs -> (match len with None => True | Some l => 0 <= l end) ->
     scaled_read_lazy (ser_file segs) (ch_path c) offs len = Ok (SG.Ok v) ->
     SG.vlen v = Nat.min (match len with Some l => Z.to_nat l | None => Z.to_nat (ch_len c) end)
                         (Z.to_nat (ch_len c) - Z.to_nat offs)).
Proof.
  intros segs st h chunkss c H1 H2 H3 H4 H5 H6 H7 H8. split.
  - intros o l v H.
    exact (DtypeFile.eager_window_length_content segs st h chunkss H1 H2 H3
             (segs_encode_content _ _ _ H4) H5 H6 c o l v H8 H).
  - intros offs len v Ho Hl H.
    exact (DtypeFile.lazy_window_length_plain segs st h chunkss H1 H2 H3 H4 H5 H6 H7 c offs len v H8 Ho Hl H).
Qed.

(* ---- 5. empty results ------------------------------------------------------------------ *)

(* if channel[:] succeeds, every EMPTY window (length 0; offset at or past the end) is
   returned without error, eagerly and lazily, has no elements and has the dtype of the
   full read (which is channel.dtype by reads_have_declared_dtype_file) *)
Theorem empty_same_dtype_file : forall segs st h chunkss c v,
  wf_file segs ->
  sm_run segs false = Ok st ->
  build_hierarchy (rs_om st) = Ok h ->
  segs_encode (rs_segments st) segs chunkss ->
  om_paths_canonical (rs_om st) ->
  typed_objects_are_channels (rs_om st) ->
  Forall (fun g => NoDup (map so_path (sg_objs g))) (rs_segments st) ->
  In c (all_channels h) ->
  scaled_read_eager (ser_file segs) (ch_path c) = Ok (SG.Ok v) ->
  (forall o l, l = 0%nat \/ (Z.to_nat (ch_len c) <= o)%nat ->
     exists w, scaled_window_eager (ser_file segs) (ch_path c) o l = Ok (SG.Ok w) /\
               SG.vlen w = 0%nat /\ SG.dtype_of w = SG.dtype_of v) /\
  (forall offs len, 0 <= offs -> (match len with None => True | Some l => 0 <= l end) ->
     len = Some 0 \/ ch_len c <= offs ->
     exists w, scaled_read_lazy (ser_file segs) (ch_path c) offs len = Ok (SG.Ok w) /\
               SG.vlen w = 0%nat /\ SG.dtype_of w = SG.dtype_of v).
Proof.
  intros segs st h chunkss c v H1 H2 H3 H4 H5 H6 H7 H8 H9.
  exact (DtypeFile.empty_same_dtype_plain segs st h chunkss H1 H2 H3 H4 H5 H6 H7 c v H8 H9).
Qed.

(* conversely: whatever window read succeeds, its dtype is that of the full read *)
Theorem reads_same_dtype_file : forall segs st h chunkss c v w,
  wf_file segs ->
  sm_run segs false = Ok st ->
  build_hierarchy (rs_om st) = Ok h ->
  segs_encode (rs_segments st) segs chunkss ->
  om_paths_canonical (rs_om st) ->
  typed_objects_are_channels (rs_om st) ->
  Forall (fun g => NoDup (map so_path (sg_objs g))) (rs_segments st) ->
  In c (all_channels h) ->
  scaled_read_eager (ser_file segs) (ch_path c) = Ok (SG.Ok v) ->
  ((exists o l, scaled_window_eager (ser_file segs) (ch_path c) o l = Ok (SG.Ok w)) \/
   (exists offs len, 0 <= offs /\ (match len with None => True | Some l => 0 <= l end) /\
                     scaled_read_lazy (ser_file segs) (ch_path c) offs len = Ok (SG.Ok w))) ->
  SG.dtype_of w = SG.dtype_of v.
Proof.
  intros segs st h chunkss c v w H1 H2 H3 H4 H5 H6 H7 H8 H9 H10.
  exact (DtypeFile.reads_same_dtype_plain segs st h chunkss H1 H2 H3 H4 H5 H6 H7 c v w H8 H9 H10).
Qed.

(* ---- 6. channels without a value model: dtype level ------------------------------------ *)

(* the channel description computed from the file, any scaling, any raw kind: every read
   operation of Model/ScaleDtype.v (data, read_data with any window, every branch of
   _read_slice, chunks with and without data) carries the dtype declared_dtype_file reports
   (the exclusion is C14's recorded finding: datetime64 - datetime64) *)
Theorem dtype_level_reads_file : forall segs st h c raw_ts ch op d,
  wf_file segs ->
  sm_run segs false = Ok st ->
  build_hierarchy (rs_om st) = Ok h ->
  om_paths_canonical (rs_om st) ->
  In c (all_channels h) ->
  chan_of_file (rs_om st) c raw_ts = SG.Ok ch ->
  read_dtype true ch op = SG.Ok d -> d <> XTimedelta64 ->
  declared_dtype_file (ser_file segs) (ch_path c) raw_ts = Ok (SG.Ok d).
Proof.
  intros segs st h c raw_ts ch op d H1 H2 H3 H4 H5 H6 H7 H8.
  exact (DtypeFile.dtype_level_reads_file segs st h H1 H2 H3 H4 c raw_ts ch op d H5 H6 H7 H8).
Qed.

Theorem chan_of_file_unfold : forall om c raw_ts,
  chan_of_file om c raw_ts =
  match props_of_props (ch_props c), props_of_props (group_props_of om (ch_group c)),
        props_of_props (root_props_of om), file_scalers c with
  | Some cp, Some gp, Some fp, Some scs =>
      SG.bind (SG.get_scaling cp gp fp)
              (fun sc => SG.Ok {| ckind := rawkind_of_type (ch_dtype c); craw_ts := raw_ts;
                                  cscaling := sc; cscalers := scs |})
  | _, _, _, _ => SG.Err SG.EUnmodelled
  end.
Proof. reflexivity. Qed.

(* strings / timestamps / channels without a data type, no scaling in scope *)
Theorem nonnumeric_dtype_file : forall segs st h c raw_ts cp gp fp scs op,
  wf_file segs ->
  sm_run segs false = Ok st ->
  build_hierarchy (rs_om st) = Ok h ->
  om_paths_canonical (rs_om st) ->
  In c (all_channels h) ->
  props_of_props (ch_props c) = Some cp ->
  props_of_props (group_props_of (rs_om st) (ch_group c)) = Some gp ->
  props_of_props (root_props_of (rs_om st)) = Some fp ->
  file_scalers c = Some scs ->
  SG.get_scaling cp gp fp = SG.Ok None ->
  let ch := {| ckind := rawkind_of_type (ch_dtype c); craw_ts := raw_ts; cscaling := None; cscalers := scs |} in
  (ch_dtype c = Some T_STRING ->
     declared_dtype_file (ser_file segs) (ch_path c) raw_ts = Ok (SG.Ok XObject) /\
     read_dtype true ch op = SG.Ok XObject) /\
  (ch_dtype c = Some T_TIME ->
     declared_dtype_file (ser_file segs) (ch_path c) raw_ts =
       Ok (SG.Ok (if raw_ts then XTimestampStruct else XDatetime64)) /\
     read_dtype true ch op = SG.Ok (if raw_ts then XTimestampStruct else XDatetime64)) /\
  (ch_dtype c = None ->
     declared_dtype_file (ser_file segs) (ch_path c) raw_ts = Ok (SG.Ok XVoid8) /\
     (op <> OpChunk true -> read_dtype true ch op = SG.Ok XVoid8)).
Proof.
  intros segs st h c raw_ts cp gp fp scs op H1 H2 H3 H4 H5 H6 H7 H8 H9 H10.
  exact (DtypeFile.nonnumeric_dtype_file segs st h H1 H2 H3 H4 c raw_ts cp gp fp scs op H5 H6 H7 H8 H9 H10).
Qed.

(* ---- 7. the hypotheses are satisfiable; both sides compute ------------------------------ *)

(* by evaluation on the bytes (sx_file: C13_file's header; int16 channels):
     a  Linear then Polynomial -> float64;  b  the GROUP's Linear -> float64;
     c  NI_Scaling_Status = 'scaled' -> int16, the raw dtype;  len = 9 *)
Example c14_file_sx_declared :
  declared_dtype_file (ser_file sx_file) sx_path_a false = Ok (SG.Ok (XNum NP.Float64)) /\
  declared_dtype_file (ser_file sx_file) sx_path_b false = Ok (SG.Ok (XNum NP.Float64)) /\
  declared_dtype_file (ser_file sx_file) sx_path_c false = Ok (SG.Ok (XNum NP.Int16)) /\
  raw_dtype_file (ser_file sx_file) sx_path_a false = Ok (XNum NP.Int16) /\
  len_file (ser_file sx_file) sx_path_a = Ok 9 /\
  declared_dtype_file_open (ser_file sx_file) sx_path_b false = Ok (SG.Ok (XNum NP.Float64)).
Proof. exact sx_declared. Qed.

(* DAQmx: scalers int16 and uint8, Add then Linear -> float64; len = 6 *)
Example c14_file_dqs_declared :
  declared_dtype_file (ser_file dqs_file) dqs_path false = Ok (SG.Ok (XNum NP.Float64)) /\
  file_scalers dqs_chan = Some [(0%nat, NP.Int16); (1%nat, NP.UInt8)] /\
  len_file (ser_file dqs_file) dqs_path = Ok 6.
Proof. exact dqs_declared. Qed.

Example c14_file_sx_empty_windows :
  scaled_window_eager (ser_file sx_file) sx_path_a 9 3 = Ok (SG.Ok (SG.VD [])) /\
  scaled_window_eager (ser_file sx_file) sx_path_a 2 0 = Ok (SG.Ok (SG.VD [])) /\
  scaled_read_lazy (ser_file sx_file) sx_path_a 20 (Some 3) = Ok (SG.Ok (SG.VD [])) /\
  scaled_read_lazy (ser_file sx_file) sx_path_c 2 (Some 0) = Ok (SG.Ok (SG.VI SG.I16 [])) /\
  scaled_read_lazy (ser_file sx_file) sx_path_c 9 None = Ok (SG.Ok (SG.VI SG.I16 [])).
Proof. exact sx_empty_windows. Qed.

Example c14_file_sx_unscaled :
  unscaled_read_eager (ser_file sx_file) sx_path_b =
    Ok (Some (plain_raw (SG.VI SG.I16 [10; 20; 30; 40; 50; 60; 70; 80; 90]))) /\
  unscaled_read_lazy (ser_file sx_file) sx_path_b 2 (Some 5) =
    Ok (Some (plain_raw (SG.VI SG.I16 [30; 40; 50; 60; 70]))) /\
  unscaled_window_eager (ser_file sx_file) sx_path_b 9 1 = Ok (Some (plain_raw (SG.VI SG.I16 []))).
Proof. exact sx_unscaled. Qed.

(* by the theorems, on sx_file (hypotheses: C13_file.c13_file_hyps): every read of every
   channel that returns an array returns one of the declared dtype; full reads have 9 values *)
Example c14_file_sx_all_reads : forall p, In p [sx_path_a; sx_path_b; sx_path_c] -> forall raw_ts,
  (forall v, scaled_read_eager (ser_file sx_file) p = Ok (SG.Ok v) ->
     declared_dtype_file (ser_file sx_file) p raw_ts = Ok (SG.Ok (XNum (SG.dtype_of v))) /\
     Z.of_nat (SG.vlen v) = 9) /\
  (forall o l v, scaled_window_eager (ser_file sx_file) p o l = Ok (SG.Ok v) ->
     declared_dtype_file (ser_file sx_file) p raw_ts = Ok (SG.Ok (XNum (SG.dtype_of v)))) /\
  (forall offs len v, 0 <= offs -> (match len with None => True | Some l => 0 <= l end) ->
     scaled_read_lazy (ser_file sx_file) p offs len = Ok (SG.Ok v) ->
     declared_dtype_file (ser_file sx_file) p raw_ts = Ok (SG.Ok (XNum (SG.dtype_of v)))).
Proof.
  intros p Hp raw_ts.
  destruct sx_channels as (Ha & Pa & Hb & Pb & Hc & Pc).
  assert (Hch : exists c, In c (all_channels sx_h) /\ ch_path c = p /\ ch_len c = 9).
  { cbn [In] in Hp. destruct Hp as [<-|[<-|[<-|[]]]];
      [exists (sx_chan sx_path_a)|exists (sx_chan sx_path_b)|exists (sx_chan sx_path_c)];
      (split; [assumption|split; [assumption|vm_compute; reflexivity]]). }
  destruct Hch as (c & Hc' & <- & Hlen).
  destruct (reads_have_declared_dtype_file sx_file sx_st sx_h sx_chunks c raw_ts sx_wf sx_run sx_hier
              sx_encodes sx_canonical sx_typed_channels sx_distinct Hc') as (R1 & R2 & R3).
  destruct (full_read_length_file sx_file sx_st sx_h sx_chunks c sx_wf sx_run sx_hier
              sx_encodes sx_canonical sx_typed_channels sx_distinct Hc') as (_ & L1 & _).
  split; [|split; assumption].
  intros v Hv. split; [exact (R1 v Hv)|]. rewrite <- Hlen. exact (L1 v Hv).
Qed.

(* ... and the theorem's conclusion is not vacuous: the reads do return arrays *)
Example c14_file_sx_reads_succeed :
  (exists v, scaled_read_eager (ser_file sx_file) sx_path_a = Ok (SG.Ok v) /\ SG.dtype_of v = NP.Float64) /\
  (exists v, scaled_read_eager (ser_file sx_file) sx_path_c = Ok (SG.Ok v) /\ SG.dtype_of v = NP.Int16) /\
  (exists v, scaled_read_lazy (ser_file sx_file) sx_path_b 2 (Some 5) = Ok (SG.Ok v) /\ SG.dtype_of v = NP.Float64).
Proof.
  split; [|split]; eexists; (split; [vm_compute; reflexivity|reflexivity]).
Qed.

(* by the theorem, on dqs_file (hypotheses: C13_file.c13_file_daqmx_hyps) *)
Example c14_file_dqs_reads :
  (forall v, scaled_read_eager (ser_file dqs_file) dqs_path = Ok (SG.Ok v) ->
     declared_dtype_file (ser_file dqs_file) dqs_path false = Ok (SG.Ok (XNum (SG.dtype_of v))) /\
     Z.of_nat (SG.vlen v) = 6) /\
  (forall o l v, scaled_window_eager (ser_file dqs_file) dqs_path o l = Ok (SG.Ok v) ->
     declared_dtype_file (ser_file dqs_file) dqs_path false = Ok (SG.Ok (XNum (SG.dtype_of v))) /\
     SG.vlen v = Nat.min l (6 - o)).
Proof.
  destruct dqs_hyps as (H1 & H2 & H3 & H4 & H5 & H6 & Hc & Hp & Hd & _).
  assert (Hlen : ch_len dqs_chan = 6) by (vm_compute; reflexivity).
  destruct (reads_have_declared_dtype_file_daqmx dqs_file dqs_st dqs_h dqs_chunks dqs_chan false
              H1 H2 H3 H4 H5 H6 Hc) as (R1 & R2).
  rewrite Hp, Hlen in R1, R2. split; assumption.
Qed.

(* nn_file: string, timestamp, untyped, complex64-under-Linear channels, by evaluation *)
Example c14_file_nn_declared :
  declared_dtype_file (ser_file nn_file) nn_path_s false = Ok (SG.Ok XObject) /\
  declared_dtype_file (ser_file nn_file) nn_path_t false = Ok (SG.Ok XDatetime64) /\
  declared_dtype_file (ser_file nn_file) nn_path_t true = Ok (SG.Ok XTimestampStruct) /\
  declared_dtype_file (ser_file nn_file) nn_path_u false = Ok (SG.Ok XVoid8) /\
  len_file (ser_file nn_file) nn_path_u = Ok 0 /\
  declared_dtype_file (ser_file nn_file) nn_path_z false = Ok (SG.Ok (XNum NP.Complex128)) /\
  raw_dtype_file (ser_file nn_file) nn_path_z false = Ok (XNum NP.Complex64) /\
  scaled_read_eager (ser_file nn_file) nn_path_s = Ok (SG.Err SG.EUnmodelled) /\
  scaled_read_eager (ser_file nn_file) nn_path_z = Ok (SG.Err SG.EUnmodelled).
Proof. exact nn_declared. Qed.

(* ... and through nonnumeric_dtype_file: its hypotheses hold of nn_file's timestamp channel *)
Example c14_file_nn_timestamp : forall raw_ts op,
  declared_dtype_file (ser_file nn_file) nn_path_t raw_ts =
    Ok (SG.Ok (if raw_ts then XTimestampStruct else XDatetime64)) /\
  read_dtype true {| ckind := RTimestamp; craw_ts := raw_ts; cscaling := None; cscalers := [] |} op =
    SG.Ok (if raw_ts then XTimestampStruct else XDatetime64).
Proof.
  intros raw_ts op.
  destruct nn_hyps as (H1 & H2 & H3 & H4 & _ & _ & _ & Ht & Pt & Dt & _).
  assert (Hp : exists cp gp fp,
             props_of_props (ch_props (nn_chan nn_path_t)) = Some cp /\
             props_of_props (group_props_of (rs_om nn_st) (ch_group (nn_chan nn_path_t))) = Some gp /\
             props_of_props (root_props_of (rs_om nn_st)) = Some fp /\
             SG.get_scaling cp gp fp = SG.Ok None).
  { eexists. eexists. eexists. split; [vm_compute; reflexivity|]. split; [vm_compute; reflexivity|].
    split; vm_compute; reflexivity. }
  destruct Hp as (cp & gp & fp & Hcp & Hgp & Hfp & Hsc).
  assert (Hs : file_scalers (nn_chan nn_path_t) = Some []) by (vm_compute; reflexivity).
  destruct (nonnumeric_dtype_file nn_file nn_st nn_h (nn_chan nn_path_t) raw_ts cp gp fp [] op
              H1 H2 H3 H4 Ht Hcp Hgp Hfp Hs Hsc) as (_ & Htime & _).
  rewrite Pt, Dt in Htime. exact (Htime eq_refl).
Qed.

Print Assumptions dtype_of_type_unfold.
Print Assumptions dtype_of_type_table.
Print Assumptions decode_values_dtype.
Print Assumptions rawkind_of_type_unfold.
Print Assumptions file_scalers_unfold.
Print Assumptions declared_dtype_file_unfold.
Print Assumptions raw_dtype_file_unfold.
Print Assumptions len_file_unfold.
Print Assumptions unscaled_read_eager_unfold.
Print Assumptions unscaled_window_eager_unfold.
Print Assumptions unscaled_read_lazy_unfold.
Print Assumptions declared_dtype_file_ser.
Print Assumptions plain_file_no_scalers.
Print Assumptions channel_scalers_typed.
Print Assumptions reads_have_declared_dtype_file.
Print Assumptions reads_have_declared_dtype_file_daqmx.
Print Assumptions unscaled_reads_have_raw_dtype_file.
Print Assumptions full_read_length_file.
Print Assumptions window_read_length_file.
Print Assumptions empty_same_dtype_file.
Print Assumptions reads_same_dtype_file.
Print Assumptions dtype_level_reads_file.
Print Assumptions chan_of_file_unfold.
Print Assumptions nonnumeric_dtype_file.
Print Assumptions c14_file_sx_declared.
Print Assumptions c14_file_dqs_declared.
Print Assumptions c14_file_sx_empty_windows.
Print Assumptions c14_file_sx_unscaled.
Print Assumptions c14_file_sx_all_reads.
Print Assumptions c14_file_sx_reads_succeed.
Print Assumptions c14_file_dqs_reads.
Print Assumptions c14_file_nn_declared.
Print Assumptions c14_file_nn_timestamp.
