(* C13 / C11 on FILE BYTES - "Scaling is ... identical in lazy and eager mode" and "Lazy
   windows ... of DAQmx channels equal slices of the eager result", for SCALED DAQmx channels.
   Statements only; definitions and proofs in Proofs/ScaleFileDaqmxLazy.v.

   Props/C13_file.v has the scaled reads on the bytes of a serialised file: eager for plain
   and DAQmx channels, lazy for PLAIN channels only, and scaled_lazy_is_window_of_scaled_eager
   under read_correct's hypotheses (no DAQmx segment).  Props/C11_lazy.v has the byte-level
   lazy read of ONE scaler of a DaqMxRawData channel (lz_read_scaler_bytes = read_data(offs,
   len, scaled=False)[id]) and daqmx_lazy_windows.  Here they are joined with C13's
   channel_elementwise: the lazy SCALED read of a DAQmx channel.

   THE READ (every definition is restated by an _unfold theorem)
     lazy_scaler_data data path sts offs len
        DaqmxDataReceiver.scaler_data after the chunk loop of TdmsChannel._read_channel_data:
        one entry per (id, type) of obj.scaler_data_types, in its order, holding
        lz_read_scaler_bytes data path id offs len
     scaled_read_lazy_daqmx data path offs len
        TdmsFile.open(data)[group][channel].read_data(offs, len), for ANY channel: metadata
        pass with segment indexes, hierarchy, the channel found by its path, ValueError for a
        negative offset / length, then
          DaqMxRawData channel: lazy_scaler_data, decoded per scaler type, handed to
             TdmsChannel._scale_data = ScaleGraph.channel_data on the channel's / the
             canonical group path's / the root's properties (ScaleFile.scale_with - the same
             lookup as the eager read);
          any other channel: ScaleFile.scaled_read_lazy's plain-data path (lz_read_bytes).
     unscaled_read_lazy_daqmx       read_data(offs, len, scaled=False), decoded

   THE PROPERTY
     scaled_lazy_is_window_of_scaled_eager_daqmx
        under read_correct_daqmx's hypotheses + "no segment's object list names a path twice"
        (necessary already for plain raw data: C03_read.lazy_eq_eager_refuted), for EVERY
        DaqMxRawData channel, every offs >= 0, every len (None or >= 0):
           scaled_read_eager bytes path = Ok r   and
           scaled_read_lazy_daqmx bytes path offs len = Ok (rmap (zwindow offs len) r)
        - same scaled values, same scaling errors (e.g. "Missing scaling information for
        DAQmx data", a DaqmxScaler node naming an absent scale id).  C13.elementwise's side
        condition [uniform] (all scaler arrays have the channel's length) is DISCHARGED from
        the file (C11_read's length accounting), not assumed.
     scaled_lazy_is_window_of_scaled_eager_typed
        the same for every OTHER channel of a file that may contain DAQmx segments (DAQmx
        channels typed by their single scaler, ordinary channels in mixed files, channels
        without data type) and ScaleFile.scaled_read_lazy
     scaled_lazy_is_window_of_scaled_eager_mixed
        every channel, one read function; scaled_lazy_full_eq_eager_mixed: channel[:] on the
        opened file = on the read file
     lazy_scaler_data_windows, scaled_read_lazy_daqmx_raw
        the lazy read as a function of the file CONTENT (windows of C11_read's
        chan_scaler_values)
     unscaled_lazy_daqmx_is_window  read_data(offs, len, scaled=False) = every scaler array of
        the eager raw data cut to the window
     scaled_read_lazy_daqmx_rejects_negative

   NOT covered: truncated files (C11_cut is about the eager read); data_chunks() and slices
   with a step of scaled DAQmx channels; what read_correct_daqmx excludes.

   EXAMPLES.  dqs_file (Proofs/ScaleFile.v: int16 + uint8 scalers under Add then Linear; chunks
   0 1 | 2 3 || 4 5) and dx_file (Proofs/ReadCorrectDaqmx.v: DAQmx segments + an ordinary
   segment; DaqMxRawData, typed-DAQmx and ordinary channels).  The windows below were read
   with npTDMS (TdmsFile.open(...)[g][c].read_data(o, l)) and compared with the windows of
   TdmsFile.read(...)[g][c][:]:
       cd /verif && PYTHONPATH=/repo /venv/bin/python dev/c13_daqmx_lazy_replay.py
   On every run of ./check C13, check_file_scaled_dq compares scaled_read_lazy_daqmx on the
   BYTES with read_data(o, l) of TdmsFile.open for every generated file, DAQmx files included
   (harness/c13.py file_correspondence). *)
From Coq Require Import String Ascii.
From Coq Require Import List ZArith Bool PrimFloat.
From Coq Require Import Init.Byte.
Import ListNotations.
From NpTdms Require Import Base.Bytes Base.Res Base.PySlice Model.Tokens Model.TokensWf Model.SegState
     Model.Layout Model.Reader Model.FileSyn Model.LazyRead Model.LazyBytes
     Proofs.LayoutProofs Proofs.FileSynProofs Proofs.ReadCorrect Proofs.ReadCorrectDaqmx
     Proofs.LazyEagerView Proofs.LazyEagerTop Proofs.TruncLazyDaqmxLazy Proofs.ScaleFile
     Proofs.ScaleFileDaqmxLazy.
From NpTdms Require Model.ScaleGraph Proofs.ScaleProofs.
Module SG := ScaleGraph.
Local Open Scope Z_scope.

(* ---- 1. the read ------------------------------------------------------------------------ *)

Theorem lazy_scaler_data_unfold : forall data path sts offs len,
  lazy_scaler_data data path sts offs len =
  mapM (fun kv : Z * Z => do vs <- lz_read_scaler_bytes data path (fst kv) offs len; Ok (fst kv, vs)) sts.
Proof. reflexivity. Qed.

Theorem scaled_read_lazy_daqmx_unfold : forall data path offs len,
  scaled_read_lazy_daqmx data path offs len =
  (do st <- rd_metadata data false (Some (blen data)) true;
   do h <- build_hierarchy (rs_om st);
   do c <- match find (fun c => bytes_eqb (ch_path c) path) (all_channels h) with
           | Some c => Ok c | None => Err EKey end;
   if (offs <? 0) || match len with Some l => l <? 0 | None => false end then Err EValue
   else
     do d <- (if oz_eqb (ch_dtype c) (Some T_DAQMX)
              then do sc <- lazy_scaler_data data (ch_path c)
                              (match ch_scalers c with Some sts => sts | None => [] end) offs len;
                   Ok (Some (CScalers sc))
              else do vs <- lz_read_bytes data (ch_path c) offs len;
                   Ok (match ch_dtype c with Some _ => Some (CData vs) | None => None end));
     Ok (scale_with (rs_om st) c (raw_of_cdata c d))).
Proof. reflexivity. Qed.

Theorem unscaled_read_lazy_daqmx_unfold : forall data path offs len,
  unscaled_read_lazy_daqmx data path offs len =
  (do st <- rd_metadata data false (Some (blen data)) true;
   do h <- build_hierarchy (rs_om st);
   do c <- match find (fun c => bytes_eqb (ch_path c) path) (all_channels h) with
           | Some c => Ok c | None => Err EKey end;
   if (offs <? 0) || match len with Some l => l <? 0 | None => false end then Err EValue
   else
     do d <- (if oz_eqb (ch_dtype c) (Some T_DAQMX)
              then do sc <- lazy_scaler_data data (ch_path c)
                              (match ch_scalers c with Some sts => sts | None => [] end) offs len;
                   Ok (Some (CScalers sc))
              else do vs <- lz_read_bytes data (ch_path c) offs len;
                   Ok (match ch_dtype c with Some _ => Some (CData vs) | None => None end));
     Ok (raw_of_cdata c d)).
Proof. reflexivity. Qed.

(* ---- 2. the lazy read as a function of the file content -------------------------------- *)

(* the receiver holds, per scale id, the window of the eager per-scaler values *)
Theorem lazy_scaler_data_windows : forall segs st h chunkss c sts offs len,
  wf_file segs ->
  sm_run segs false = Ok st ->
  build_hierarchy (rs_om st) = Ok h ->
  segs_content (rs_segments st) segs chunkss ->
  om_paths_canonical (rs_om st) ->
  Forall (fun g => NoDup (map so_path (sg_objs g))) (rs_segments st) ->
  In c (all_channels h) -> ch_dtype c = Some T_DAQMX -> ch_scalers c = Some sts ->
  0 <= offs -> (match len with None => True | Some l => 0 <= l end) ->
  lazy_scaler_data (ser_file segs) (ch_path c) sts offs len =
  Ok (map (fun kv : Z * list bytes => (fst kv, window_of offs len (snd kv)))
          (map (fun kv : Z * Z => (fst kv, chan_scaler_values (ch_path c) (fst kv) (concat chunkss))) sts)).
Proof.
  intros segs st h chunkss c sts offs len H1 H2 H3 H4 H5 H6 H7 H8 H9 H10 H11.
  exact (ScaleFileDaqmxLazy.lazy_scaler_data_windows segs st h chunkss H1 H2 H3 H4 H5 H6 c sts offs len
           H7 H8 H9 H10 H11).
Qed.

Theorem scaled_read_lazy_daqmx_raw : forall segs st h chunkss c sts offs len,
  wf_file segs ->
  sm_run segs false = Ok st ->
  build_hierarchy (rs_om st) = Ok h ->
  segs_content (rs_segments st) segs chunkss ->
  om_paths_canonical (rs_om st) ->
  Forall (fun g => NoDup (map so_path (sg_objs g))) (rs_segments st) ->
  In c (all_channels h) -> ch_dtype c = Some T_DAQMX -> ch_scalers c = Some sts ->
  0 <= offs -> (match len with None => True | Some l => 0 <= l end) ->
  scaled_read_lazy_daqmx (ser_file segs) (ch_path c) offs len =
  Ok (scale_with (rs_om st) c
        (option_map (fun l => SG.Build_rawdata None l)
           (decode_scalers sts
              (map (fun kv : Z * Z =>
                      (fst kv, window_of offs len (chan_scaler_values (ch_path c) (fst kv) (concat chunkss))))
                   sts)))).
Proof.
  intros segs st h chunkss c sts offs len H1 H2 H3 H4 H5 H6 H7 H8 H9 H10 H11.
  exact (ScaleFileDaqmxLazy.scaled_read_lazy_daqmx_raw segs st h chunkss H1 H2 H3 H4 H5 H6 c sts offs len
           H7 H8 H9 H10 H11).
Qed.

(* decoding and scaling commute with the window, scaler by scaler (C13.channel_elementwise
   with [uniform] discharged by "every value list has n elements") *)
Theorem scale_with_scaler_window : forall om c sts sc n offs len,
  Forall (fun kv : Z * list bytes => length (snd kv) = n) sc ->
  scale_with om c (option_map (fun l => SG.Build_rawdata None l)
                     (decode_scalers sts (map (fun kv : Z * list bytes => (fst kv, window_of offs len (snd kv))) sc))) =
  SG.rmap (zwindow offs len)
    (scale_with om c (option_map (fun l => SG.Build_rawdata None l) (decode_scalers sts sc))).
Proof. exact ScaleFileDaqmxLazy.scale_with_scaler_window. Qed.

(* ---- 3. THE PROPERTY ---------------------------------------------------------------------- *)

Theorem scaled_lazy_is_window_of_scaled_eager_daqmx : forall segs st h chunkss c offs len,
  wf_file segs ->
  sm_run segs false = Ok st ->
  build_hierarchy (rs_om st) = Ok h ->
  segs_content (rs_segments st) segs chunkss ->
  om_paths_canonical (rs_om st) ->
  typed_objects_are_channels (rs_om st) ->
  Forall (fun g => NoDup (map so_path (sg_objs g))) (rs_segments st) ->
  In c (all_channels h) ->
  ch_dtype c = Some T_DAQMX ->
  0 <= offs ->
  (match len with None => True | Some l => 0 <= l end) ->
  exists r, scaled_read_eager (ser_file segs) (ch_path c) = Ok r /\
            scaled_read_lazy_daqmx (ser_file segs) (ch_path c) offs len = Ok (SG.rmap (zwindow offs len) r).
Proof.
  intros segs st h chunkss c offs len H1 H2 H3 H4 H5 H6 H7 H8 H9 H10 H11.
  exact (ScaleFileDaqmxLazy.scaled_lazy_is_window_of_scaled_eager_daqmx segs st h chunkss H1 H2 H3 H4 H5 H6 H7
           c offs len H8 H9 H10 H11).
Qed.

(* every other channel of a file that may contain DAQmx segments, through ScaleFile's
   plain-data lazy read *)
Theorem scaled_lazy_is_window_of_scaled_eager_typed : forall segs st h chunkss c offs len,
  wf_file segs ->
  sm_run segs false = Ok st ->
  build_hierarchy (rs_om st) = Ok h ->
  segs_content (rs_segments st) segs chunkss ->
  om_paths_canonical (rs_om st) ->
  typed_objects_are_channels (rs_om st) ->
  Forall (fun g => NoDup (map so_path (sg_objs g))) (rs_segments st) ->
  In c (all_channels h) ->
  ch_dtype c <> Some T_DAQMX ->
  0 <= offs ->
  (match len with None => True | Some l => 0 <= l end) ->
  exists r, scaled_read_eager (ser_file segs) (ch_path c) = Ok r /\
            scaled_read_lazy (ser_file segs) (ch_path c) offs len = Ok (SG.rmap (zwindow offs len) r).
Proof.
  intros segs st h chunkss c offs len H1 H2 H3 H4 H5 H6 H7 H8 H9 H10 H11.
  exact (ScaleFileDaqmxLazy.scaled_lazy_is_window_of_scaled_eager_typed segs st h chunkss H1 H2 H3 H4 H5 H6 H7
           c offs len H8 H9 H10 H11).
Qed.

(* ... on which the general read IS ScaleFile's *)
Theorem scaled_read_lazy_daqmx_plain : forall segs st h c offs len,
  wf_file segs ->
  sm_run segs false = Ok st ->
  build_hierarchy (rs_om st) = Ok h ->
  om_paths_canonical (rs_om st) ->
  In c (all_channels h) ->
  ch_dtype c <> Some T_DAQMX ->
  0 <= offs ->
  (match len with None => True | Some l => 0 <= l end) ->
  scaled_read_lazy_daqmx (ser_file segs) (ch_path c) offs len =
  scaled_read_lazy (ser_file segs) (ch_path c) offs len.
Proof.
  intros segs st h c offs len H1 H2 H3 H4 H5 H6 H7 H8.
  exact (ScaleFileDaqmxLazy.scaled_read_lazy_daqmx_plain segs st h H1 H2 H3 H4 c offs len H5 H6 H7 H8).
Qed.

(* EVERY channel of a file mixing DAQmx and ordinary segments *)
Theorem scaled_lazy_is_window_of_scaled_eager_mixed : forall segs st h chunkss c offs len,
  wf_file segs ->
  sm_run segs false = Ok st ->
  build_hierarchy (rs_om st) = Ok h ->
  segs_content (rs_segments st) segs chunkss ->
  om_paths_canonical (rs_om st) ->
  typed_objects_are_channels (rs_om st) ->
  Forall (fun g => NoDup (map so_path (sg_objs g))) (rs_segments st) ->
  In c (all_channels h) ->
  0 <= offs ->
  (match len with None => True | Some l => 0 <= l end) ->
  exists r, scaled_read_eager (ser_file segs) (ch_path c) = Ok r /\
            scaled_read_lazy_daqmx (ser_file segs) (ch_path c) offs len = Ok (SG.rmap (zwindow offs len) r).
Proof.
  intros segs st h chunkss c offs len H1 H2 H3 H4 H5 H6 H7 H8 H9 H10.
  exact (ScaleFileDaqmxLazy.scaled_lazy_is_window_of_scaled_eager_mixed segs st h chunkss H1 H2 H3 H4 H5 H6 H7
           c offs len H8 H9 H10).
Qed.

Theorem scaled_lazy_full_eq_eager_mixed : forall segs st h chunkss c,
  wf_file segs ->
  sm_run segs false = Ok st ->
  build_hierarchy (rs_om st) = Ok h ->
  segs_content (rs_segments st) segs chunkss ->
  om_paths_canonical (rs_om st) ->
  typed_objects_are_channels (rs_om st) ->
  Forall (fun g => NoDup (map so_path (sg_objs g))) (rs_segments st) ->
  In c (all_channels h) ->
  scaled_read_lazy_daqmx (ser_file segs) (ch_path c) 0 None = scaled_read_eager (ser_file segs) (ch_path c).
Proof.
  intros segs st h chunkss c H1 H2 H3 H4 H5 H6 H7 H8.
  exact (ScaleFileDaqmxLazy.scaled_lazy_full_eq_eager_mixed segs st h chunkss H1 H2 H3 H4 H5 H6 H7 c H8).
Qed.

(* a negative offset or length: ValueError, for every channel *)
Theorem scaled_read_lazy_daqmx_rejects_negative : forall segs st h c offs len,
  wf_file segs ->
  sm_run segs false = Ok st ->
  build_hierarchy (rs_om st) = Ok h ->
  om_paths_canonical (rs_om st) ->
  In c (all_channels h) ->
  offs < 0 \/ (exists l, len = Some l /\ l < 0) ->
  scaled_read_lazy_daqmx (ser_file segs) (ch_path c) offs len = Err EValue.
Proof.
  intros segs st h c offs len H1 H2 H3 H4 H5 H6.
  exact (ScaleFileDaqmxLazy.scaled_read_lazy_daqmx_rejects_negative segs st h H1 H2 H3 H4 c offs len H5 H6).
Qed.

(* read_data(offs, len, scaled=False) of a DaqMxRawData channel: the eager raw_channel_data
   with every scaler array cut to the window (ScaleGraph.window_raw) *)
Theorem unscaled_lazy_daqmx_is_window : forall segs st h chunkss c sts offs len,
  wf_file segs ->
  sm_run segs false = Ok st ->
  build_hierarchy (rs_om st) = Ok h ->
  segs_content (rs_segments st) segs chunkss ->
  om_paths_canonical (rs_om st) ->
  Forall (fun g => NoDup (map so_path (sg_objs g))) (rs_segments st) ->
  In c (all_channels h) -> ch_dtype c = Some T_DAQMX -> ch_scalers c = Some sts ->
  0 <= offs -> (match len with None => True | Some l => 0 <= l end) ->
  unscaled_read_lazy_daqmx (ser_file segs) (ch_path c) offs len =
  Ok (option_map (SG.window_raw (Z.to_nat offs)
                    (match len with Some k => Z.to_nat k | None => Z.to_nat (ch_len c) end))
        (raw_of_cdata c (expected_data_dq (concat chunkss) c))).
Proof.
  intros segs st h chunkss c sts offs len H1 H2 H3 H4 H5 H6 H7 H8 H9 H10 H11.
  exact (ScaleFileDaqmxLazy.unscaled_lazy_daqmx_is_window segs st h chunkss H1 H2 H3 H4 H5 H6 c sts offs len
           H7 H8 H9 H10 H11).
Qed.

(* ---- 4. the hypotheses are satisfiable, and both sides compute -------------------------- *)

(* dqs_file: DaqMxRawData channel, scalers id 0 (int16) and id 1 (uint8), scale 2 = Add(0, 1),
   scale 3 = Linear(0.5, 1.0) on scale 2; a DAQmx segment of two chunks and a metadata-less
   one of one chunk, 2 values per chunk *)
Example c13_daqmx_lazy_hyps :
  wf_file dqs_file /\ sm_run dqs_file false = Ok dqs_st /\ build_hierarchy (rs_om dqs_st) = Ok dqs_h /\
  segs_content (rs_segments dqs_st) dqs_file dqs_chunks /\
  om_paths_canonical (rs_om dqs_st) /\ typed_objects_are_channels (rs_om dqs_st) /\
  Forall (fun g => NoDup (map so_path (sg_objs g))) (rs_segments dqs_st) /\
  In dqs_chan (all_channels dqs_h) /\ ch_path dqs_chan = dqs_path /\
  ch_dtype dqs_chan = Some T_DAQMX /\ ch_scalers dqs_chan = Some [(0, 2); (1, 5)].
Proof.
  destruct dqs_hyps as (H1 & H2 & H3 & H4 & H5 & H6 & H7).
  exact (conj H1 (conj H2 (conj H3 (conj H4 (conj H5 (conj H6 (conj dqs_distinct H7))))))).
Qed.

(* by the theorem: every window *)
Example c13_daqmx_lazy_all_windows : forall offs len,
  0 <= offs -> (match len with None => True | Some l => 0 <= l end) ->
  exists r, scaled_read_eager (ser_file dqs_file) dqs_path = Ok r /\
            scaled_read_lazy_daqmx (ser_file dqs_file) dqs_path offs len = Ok (SG.rmap (zwindow offs len) r).
Proof. exact dqs_lazy_all_windows. Qed.

(* by evaluation of the byte-level models on the file's bytes: [1, 3) crosses the chunk
   boundary 1|2, [1, 5) the chunk boundary and the segment boundary 3||4, [3, end), [5, 8)
   runs past the end, [6, 8) starts at the end, a zero-length window, the full read, a
   negative offset - the values npTDMS returns for these windows *)
Example c13_daqmx_lazy_eval :
  scaled_read_lazy_daqmx (ser_file dqs_file) dqs_path 1 (Some 2) = Ok (SG.Ok (SG.VD [-98; -16256]%float)) /\
  scaled_read_lazy_daqmx (ser_file dqs_file) dqs_path 1 (Some 4) =
    Ok (SG.Ok (SG.VD [-98; -16256; -16383; 9]%float)) /\
  scaled_read_lazy_daqmx (ser_file dqs_file) dqs_path 3 None = Ok (SG.Ok (SG.VD [-16383; 9; 2]%float)) /\
  scaled_read_lazy_daqmx (ser_file dqs_file) dqs_path 5 (Some 3) = Ok (SG.Ok (SG.VD [2]%float)) /\
  scaled_read_lazy_daqmx (ser_file dqs_file) dqs_path 6 (Some 2) = Ok (SG.Ok (SG.VD [])) /\
  scaled_read_lazy_daqmx (ser_file dqs_file) dqs_path 2 (Some 0) = Ok (SG.Ok (SG.VD [])) /\
  scaled_read_lazy_daqmx (ser_file dqs_file) dqs_path 0 None =
    Ok (SG.Ok (SG.VD [51.5; -98; -16256; -16383; 9; 2]%float)) /\
  scaled_read_lazy_daqmx (ser_file dqs_file) dqs_path (-1) None = Err EValue.
Proof. exact dqs_lazy_eval. Qed.

(* ... each the window of the eager scaled values *)
Example c13_daqmx_lazy_eval_windows :
  let e := SG.VD [51.5; -98; -16256; -16383; 9; 2]%float in
  scaled_read_eager (ser_file dqs_file) dqs_path = Ok (SG.Ok e) /\
  zwindow 1 (Some 2) e = SG.VD [-98; -16256]%float /\
  zwindow 1 (Some 4) e = SG.VD [-98; -16256; -16383; 9]%float /\
  zwindow 3 None e = SG.VD [-16383; 9; 2]%float /\
  zwindow 5 (Some 3) e = SG.VD [2]%float /\
  zwindow 6 (Some 2) e = SG.VD [] /\
  zwindow 2 (Some 0) e = SG.VD [].
Proof. exact dqs_lazy_eval_windows. Qed.

(* every window offs 0..7, len None / 0..7, evaluated on the bytes:
   ScaleFileDaqmxLazy.dqs_lazy_windows_ok :=
     match scaled_read_eager (ser_file dqs_file) dqs_path with
     | Ok (SG.Ok e) => forallb (fun o => forallb (fun l =>
           agrees_file (scaled_read_lazy_daqmx (ser_file dqs_file) dqs_path o l) (Some (zwindow o l e)))
           (None :: map (fun n => Some (Z.of_nat n)) (seq 0 8))) (map Z.of_nat (seq 0 8))
     | _ => false end *)
Example c13_daqmx_lazy_all_windows_eval : dqs_lazy_windows_ok = true.
Proof. exact dqs_lazy_all_windows_eval. Qed.

(* read_data(1, 3, scaled=False): scale id -> raw scaler values *)
Example c13_daqmx_lazy_unscaled :
  unscaled_read_lazy_daqmx (ser_file dqs_file) dqs_path 1 (Some 3) =
  Ok (Some (SG.Build_rawdata None [(0%nat, SG.VI SG.I16 [-200; 32767; -32768]); (1%nat, SG.VI SG.U8 [2; 255; 0])])).
Proof. exact dqs_lazy_unscaled. Qed.

(* dx_file: a MIXED file (big-endian DAQmx segments, then an ordinary little-endian segment):
   c0, c1 DaqMxRawData (no scaling defined: "Missing scaling information for DAQmx data",
   eagerly and lazily alike), c2 a DAQmx channel typed int32 by its single scaler, x an
   ordinary int32 channel *)
Example c13_daqmx_lazy_mixed_hyps :
  wf_file dx_file /\ sm_run dx_file false = Ok dx_st /\ build_hierarchy (rs_om dx_st) = Ok dx_h /\
  segs_content (rs_segments dx_st) dx_file dx_chunks /\
  om_paths_canonical (rs_om dx_st) /\ typed_objects_are_channels (rs_om dx_st) /\
  Forall (fun g => NoDup (map so_path (sg_objs g))) (rs_segments dx_st) /\
  map ch_path (all_channels dx_h) = [dx_p0; dx_p1; dx_p2; dx_px] /\
  map ch_dtype (all_channels dx_h) = [Some T_DAQMX; Some T_DAQMX; Some 3; Some 3].
Proof.
  destruct TruncLazyDaqmxEx.dx_channels as (P & D & _).
  exact (conj dx_wf (conj dx_run (conj dx_hier (conj dx_content (conj dx_canonical
        (conj dx_typed_channels (conj TruncLazyDaqmxEx.dx_distinct (conj P D)))))))).
Qed.

Example c13_daqmx_lazy_mixed_all_windows : forall p, In p [dx_p0; dx_p1; dx_p2; dx_px] ->
  forall offs len, 0 <= offs -> (match len with None => True | Some l => 0 <= l end) ->
  exists r, scaled_read_eager (ser_file dx_file) p = Ok r /\
            scaled_read_lazy_daqmx (ser_file dx_file) p offs len = Ok (SG.rmap (zwindow offs len) r).
Proof. exact dx_mixed_all_windows. Qed.

Example c13_daqmx_lazy_typed_all_windows : forall p, In p [dx_p2; dx_px] ->
  forall offs len, 0 <= offs -> (match len with None => True | Some l => 0 <= l end) ->
  exists r, scaled_read_eager (ser_file dx_file) p = Ok r /\
            scaled_read_lazy (ser_file dx_file) p offs len = Ok (SG.rmap (zwindow offs len) r).
Proof. exact dx_typed_all_windows. Qed.

Example c13_daqmx_lazy_mixed_eval :
  scaled_read_eager (ser_file dx_file) dx_p2 =
    Ok (SG.Ok (SG.VI SG.I32 [16909060; 286397204; 555885348; 825373492; 1094861636; 1364349780])) /\
  scaled_read_lazy (ser_file dx_file) dx_p2 1 (Some 3) = Ok (SG.Ok (SG.VI SG.I32 [286397204; 555885348; 825373492])) /\
  scaled_read_lazy_daqmx (ser_file dx_file) dx_p2 1 (Some 3) =
    Ok (SG.Ok (SG.VI SG.I32 [286397204; 555885348; 825373492])) /\
  scaled_read_eager (ser_file dx_file) dx_px = Ok (SG.Ok (SG.VI SG.I32 [7; 8])) /\
  scaled_read_lazy_daqmx (ser_file dx_file) dx_px 1 None = Ok (SG.Ok (SG.VI SG.I32 [8])) /\
  scaled_read_eager (ser_file dx_file) dx_p0 = Ok (SG.Err SG.EValue) /\
  scaled_read_lazy_daqmx (ser_file dx_file) dx_p0 0 None = Ok (SG.Err SG.EValue) /\
  unscaled_read_lazy_daqmx (ser_file dx_file) dx_p0 1 (Some 4) =
    Ok (Some (SG.Build_rawdata None [(0%nat, SG.VI SG.I16 [4370; 8482; 12594; 16706]);
                                      (5%nat, SG.VI SG.U8 [20; 36; 52; 68])])).
Proof. exact dx_mixed_eval. Qed.

Print Assumptions lazy_scaler_data_unfold.
Print Assumptions scaled_read_lazy_daqmx_unfold.
Print Assumptions unscaled_read_lazy_daqmx_unfold.
Print Assumptions lazy_scaler_data_windows.
Print Assumptions scaled_read_lazy_daqmx_raw.
Print Assumptions scale_with_scaler_window.
Print Assumptions scaled_lazy_is_window_of_scaled_eager_daqmx.
Print Assumptions scaled_lazy_is_window_of_scaled_eager_typed.
Print Assumptions scaled_read_lazy_daqmx_plain.
Print Assumptions scaled_lazy_is_window_of_scaled_eager_mixed.
Print Assumptions scaled_lazy_full_eq_eager_mixed.
Print Assumptions scaled_read_lazy_daqmx_rejects_negative.
Print Assumptions unscaled_lazy_daqmx_is_window.
Print Assumptions c13_daqmx_lazy_hyps.
Print Assumptions c13_daqmx_lazy_all_windows.
Print Assumptions c13_daqmx_lazy_eval.
Print Assumptions c13_daqmx_lazy_eval_windows.
Print Assumptions c13_daqmx_lazy_all_windows_eval.
Print Assumptions c13_daqmx_lazy_unscaled.
Print Assumptions c13_daqmx_lazy_mixed_hyps.
Print Assumptions c13_daqmx_lazy_mixed_all_windows.
Print Assumptions c13_daqmx_lazy_typed_all_windows.
Print Assumptions c13_daqmx_lazy_mixed_eval.
