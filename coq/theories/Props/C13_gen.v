(* C13 (companion) -- the LOOKUP of scaling definitions, TRANSLATED from nptdms/scaling.py on every run
   (harness/gen/gen_pyfuncs_scaling.py -> Gen/PyFuncsScaling.v; self-tested against the real functions),
   equals the hand model Model/ScaleGraph.v that the dataflow theorems of Props/C13.v are about:
   _get_number_of_scalings (NI_Number_Of_Scales, else the PREFIX regex NI_Scale\[(\d+)\]_Scale_Type over the
   property names, max + 1), the head of _get_channel_scaling (no scalings, zero scalings or
   NI_Scaling_Status == 'scaled': no scaling from this level) and get_scaling's lazy fall-through channel ->
   group -> file.  Statements only (proofs: Proofs/GenScalingEquiv.v).
   The regex itself is the prelude predicate ScaleGraph.scale_regex_match (the driver checks the regex text);
   the construction of the scaling objects is not translated (ScaleGraph.scaling_at, tied by ./check C13).
   [lift] renders the model's errors as exception classes (EUnmodelled and internal kinds: EOther). *)
From Coq Require Import String.
From Coq Require Import List ZArith Bool.
Import ListNotations.
From NpTdms Require Import Base.Res Gen.PyFuncsScaling Proofs.GenScalingEquiv.
From NpTdms Require Model.ScaleGraph.
Local Open Scope Z_scope.

Theorem get_number_of_scalings_translated : forall p,
    get_number_of_scalings_gen p = lift (ScaleGraph.number_of_scalings p).
Proof. exact get_number_of_scalings_eq. Qed.

(* the model's _get_channel_scaling is: the translated head, then the construction of the graph *)
Theorem channel_scaling_head_translated : forall p,
    ScaleGraph.get_channel_scaling p
    = match channel_scaling_head_gen p with
      | Err _ => ScaleGraph.Err ScaleGraph.EUnmodelled
      | Ok None => ScaleGraph.Ok None
      | Ok (Some n) => build_part p n
      end.
Proof. exact channel_scaling_head_eq. Qed.

(* get_scaling on the model's _get_channel_scaling is the model's get_scaling *)
Theorem get_scaling_translated : forall c g f,
    get_scaling_gen ScaleGraph.graph (fun p => lift (ScaleGraph.get_channel_scaling p)) c g f
    = lift (ScaleGraph.get_scaling c g f).
Proof. exact get_scaling_eq. Qed.

(* ... and for ANY _get_channel_scaling: the first level with a scaling wins without the later levels being
   looked at (a file-level definition that would raise does not matter when the channel has its own) *)
Theorem get_scaling_first_level_wins : forall S (F : ScaleGraph.props -> res (option S)) c g f s,
    F c = Ok (Some s) -> get_scaling_gen S F c g f = Ok (Some s).
Proof. exact get_scaling_first_wins. Qed.

Theorem get_scaling_falls_through_levels : forall S (F : ScaleGraph.props -> res (option S)) c g f,
    F c = Ok None -> get_scaling_gen S F c g f = py_first_some F [g; f].
Proof. exact get_scaling_falls_through. Qed.

(* non-vacuity: the prefix match (a key with trailing text counts), leading zeros, the explicit count, the
   'scaled' status, and a group-level definition found after an empty channel level *)
Example c13_gen_examples :
  get_number_of_scalings_gen [("NI_Scale[007]_Scale_Type_x"%string, ScaleGraph.PStr "Linear"); ("NI_Scale[2]_Scale_Type"%string, ScaleGraph.PStr "Table")]
  = Ok (Some 8) /\
  get_number_of_scalings_gen [("NI_Number_Of_Scales"%string, ScaleGraph.PInt 1); ("NI_Scale[5]_Scale_Type"%string, ScaleGraph.PStr "Linear")]
  = Ok (Some 1) /\
  channel_scaling_head_gen [("NI_Scale[0]_Scale_Type"%string, ScaleGraph.PStr "Linear"); ("NI_Scaling_Status"%string, ScaleGraph.PStr "scaled")]
  = Ok None /\
  channel_scaling_head_gen [("NI_Scale[0]_Scale_Type"%string, ScaleGraph.PStr "Linear"); ("NI_Scaling_Status"%string, ScaleGraph.PStr "unscaled")]
  = Ok (Some 1) /\
  get_scaling_gen Z (fun p => match ScaleGraph.pget "k" p with Some (ScaleGraph.PInt z) => Ok (Some z) | Some _ => Err EKey | None => Ok None end)
                  [] [("k"%string, ScaleGraph.PInt 5)] [("k"%string, ScaleGraph.PStr "boom")] = Ok (Some 5).
Proof. vm_compute. repeat split; reflexivity. Qed.

Print Assumptions get_number_of_scalings_translated.
Print Assumptions channel_scaling_head_translated.
Print Assumptions get_scaling_translated.
Print Assumptions get_scaling_first_level_wins.
Print Assumptions get_scaling_falls_through_levels.
Print Assumptions c13_gen_examples.
