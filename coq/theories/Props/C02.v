(* C02 — Segment metadata inheritance never changes what is read.
   Statements only; proofs in Proofs/SegStateProofs.v, Proofs/SegStateInherit.v
   (one segment) and Proofs/SegStateExplicit.v (whole streams and files).

   MAIN STATEMENT: [inheritance_transparent] (end of this file): for every
   stream of segments the metadata pass accepts, the fully explicit
   re-encoding [explicit_segs] of the same content is accepted too and reads
   the same object lists, path indexes, chunk counts, final-chunk overrides,
   per-object lengths / data types / scaler types / properties (same order)
   and previous-object map; only the segment positions differ (the explicit
   metadata blocks have other byte lengths).  [sm_run] is the reader's
   metadata pass on file syntax (Model/FileSyn.v); Proofs/FileSynProofs.v
   proves it equal to reading the serialised bytes, whence
   [inheritance_transparent_files].

   The mechanism model is Model/SegState.v (replace-at-index through an index
   map built ONCE per segment from the copied list; global previous-object map
   updated only after a segment; copy when has_data flips; shared list for
   metadata-less segments; index cache).  The specification
   ([spec_fold_entries], Proofs/SegStateInherit.v) looks a listed object up BY
   PATH IN THE CURRENT LIST.  [explicit_entries objs] is the fully explicit
   encoding of a segment's object list (every object restated with a full
   index or "no data"; used with the new-object-list flag set).

   State invariants (each established and re-established by the machine, see
   [state_invariants_preserved] and [segment_objects_paths_unique]):
     prev_keys_ok prev  : the global map is keyed by the path of the stored object
     prev_wf prev       : every stored object carries a definable index or has
                          only ever been declared "no data"
     base_tracked b prev: every object of the previous segment's list is the
                          global map's object for its path
     NoDup (map so_path objs) : a segment's list has no duplicate path. *)
From Coq Require Import List ZArith.
Import ListNotations.
From NpTdms Require Import Base.Bytes Base.Res Model.Tokens Model.SegState Model.Layout Model.Reader
     Model.FileSyn Proofs.SegStateProofs Proofs.SegStateInherit Proofs.FileSynProofs
     Proofs.SegStateExplicit.
Local Open Scope Z_scope.

(* the path -> position index cache never returns a stale or foreign index:
   whatever the history of lookups, a hit equals the fresh computation *)
Theorem index_cache_transparent : forall c objs,
    cache_ok c ->
    fst (get_index c objs) = fresh_index (map so_path objs) /\ cache_ok (snd (get_index c objs)).
Proof. exact get_index_fresh. Qed.

(* ---- T1: the stale positional index map is harmless ------------------------ *)

(* inherited list: replace-at-index through the map computed once from [base]
   equals update-by-path in the evolving list *)
Theorem positional_update_is_update_by_path : forall base prev_objs es,
    prev_keys_ok prev_objs ->
    NoDup (map so_path base) ->
    NoDup (map e_path es) ->
    fold_entries (Some base) prev_objs base es = spec_fold_entries prev_objs base es.
Proof. exact SegStateInherit.positional_update_is_update_by_path. Qed.

(* new object list: the mechanism never looks into the evolving list (it is
   the machine over an empty copied list), so it equals update-by-path exactly
   when no listed path repeats *)
Theorem new_list_update_is_update_by_path : forall prev_objs es,
    prev_keys_ok prev_objs ->
    NoDup (map e_path es) ->
    fold_entries None prev_objs [] es = spec_fold_entries prev_objs [] es.
Proof. exact SegStateInherit.new_list_update_is_update_by_path0. Qed.

(* the paths of the result, exactly and without any uniqueness assumption:
   the copied list's paths in place, then the listed paths not in it *)
Theorem segment_objects_paths : forall base prev_objs es r,
    prev_keys_ok prev_objs ->
    fold_entries (Some base) prev_objs base es = Ok r ->
    map so_path r = map so_path base ++ appended_paths base es.
Proof. exact SegStateInherit.fold_entries_paths. Qed.

Theorem segment_objects_paths_new_list : forall prev_objs es r,
    prev_keys_ok prev_objs ->
    fold_entries None prev_objs [] es = Ok r ->
    map so_path r = map e_path es.
Proof. exact SegStateInherit.fold_entries_paths_new_list. Qed.

(* the no-duplicate invariant is re-established as soon as no listed path
   outside the copied list repeats *)
Theorem segment_objects_paths_unique : forall base prev_objs es r,
    prev_keys_ok prev_objs ->
    NoDup (map so_path base) ->
    NoDup (appended_paths base es) ->
    fold_entries (Some base) prev_objs base es = Ok r ->
    NoDup (map so_path r).
Proof. exact SegStateInherit.fold_entries_nodup. Qed.

Theorem segment_objects_paths_unique_new_list : forall prev_objs es r,
    prev_keys_ok prev_objs ->
    NoDup (map e_path es) ->
    fold_entries None prev_objs [] es = Ok r ->
    NoDup (map so_path r).
Proof. exact SegStateInherit.fold_entries_nodup_new_list. Qed.

(* ---- T2: the fully explicit encoding gives the same objects ----------------- *)

Theorem explicit_reencoding_same_objects : forall prev_objs objs,
    prev_keys_ok prev_objs ->
    Forall canonical objs ->
    Forall (nodata_ok prev_objs) objs ->
    fold_entries None prev_objs [] (explicit_entries objs) = Ok objs.
Proof. exact SegStateInherit.explicit_reencoding_same_objects. Qed.

(* ... also when read through the by-path specification *)
Theorem explicit_reencoding_same_objects_spec : forall prev_objs objs,
    prev_keys_ok prev_objs ->
    Forall canonical objs ->
    Forall (nodata_ok prev_objs) objs ->
    NoDup (map so_path objs) ->
    spec_fold_entries prev_objs [] (explicit_entries objs) = Ok objs.
Proof. exact SegStateInherit.explicit_reencoding_same_objects_spec. Qed.

(* canonicity is established by the machine and kept by it *)
Theorem new_object_canonical : forall p i o, new_object p i = Ok o -> canonical o.
Proof. exact SegStateInherit.new_object_canonical. Qed.

Theorem update_existing_canonical : forall o i o',
    update_existing o i = Ok o' -> canonical o ->
    (i = IMatchPrev -> so_has_data o = false -> indexed o) ->
    canonical o'.
Proof. exact SegStateInherit.update_existing_canonical. Qed.

Theorem reuse_previous_canonical : forall po i o',
    reuse_previous po i = Ok o' -> canonical po ->
    (i = IMatchPrev -> so_has_data po = false -> indexed po) ->
    canonical o'.
Proof. exact SegStateInherit.reuse_previous_canonical. Qed.

Theorem update_existing_indexed : forall o i o',
    update_existing o i = Ok o' -> indexed o -> indexed o'.
Proof. exact SegStateInherit.update_existing_indexed. Qed.

Theorem reuse_previous_indexed : forall po i o',
    reuse_previous po i = Ok o' -> indexed po -> indexed o'.
Proof. exact SegStateInherit.reuse_previous_indexed. Qed.

(* whatever encoding a segment uses (metadata absent / inherited list / new
   list; full, matches-previous, no-data or unlisted objects), the list it
   produces satisfies the hypotheses of T2 with respect to the same global map *)
Theorem segment_objects_ok : forall toc metadata prev_objs prev_seg objs props,
    prev_keys_ok prev_objs -> prev_wf prev_objs -> base_tracked prev_seg prev_objs ->
    read_segment_objects toc metadata prev_objs prev_seg = Ok (objs, props) ->
    Forall (obj_ok prev_objs) objs.
Proof. exact SegStateInherit.read_segment_objects_obj_ok. Qed.

(* one step of the property: under the state invariants, ANY accepted encoding
   of a segment and its fully explicit re-encoding produce the same ordered
   object list, unless an object has data without ever having had an index *)
Theorem inheritance_transparent_step : forall toc metadata prev_objs prev_seg objs props toc',
    prev_keys_ok prev_objs -> prev_wf prev_objs -> base_tracked prev_seg prev_objs ->
    read_segment_objects toc metadata prev_objs prev_seg = Ok (objs, props) ->
    (forall o, In o objs -> so_has_data o = true -> so_dtype o <> None) ->
    toc_has toc' TOC_NEWLIST = true ->
    read_segment_objects toc' (Some (explicit_entries objs)) prev_objs prev_seg = Ok (objs, []).
Proof. exact SegStateInherit.inheritance_transparent_step. Qed.

(* ---- T3: forbidden encodings are rejected ------------------------------------ *)

Theorem forbidden_rejected_first_without_metadata : forall toc prev_objs,
    read_segment_objects toc None prev_objs None = Err EValue.
Proof. exact SegStateInherit.forbidden_rejected_first_without_metadata. Qed.

Theorem forbidden_rejected_unseen_match_prev : forall base prev_objs ordered pre mid x es,
    fold_entries base prev_objs ordered pre = Ok mid ->
    unseen base prev_objs (e_path x) -> e_idx x = IMatchPrev ->
    fold_entries base prev_objs ordered (pre ++ x :: es) = Err EValue.
Proof. exact SegStateInherit.forbidden_rejected_unseen_match_prev_after. Qed.

Theorem forbidden_rejected_unseen_match_prev_never_ok : forall base prev_objs ordered pre x es r,
    unseen base prev_objs (e_path x) -> e_idx x = IMatchPrev ->
    fold_entries base prev_objs ordered (pre ++ x :: es) <> Ok r.
Proof. exact SegStateInherit.forbidden_rejected_unseen_match_prev_never_ok. Qed.

Theorem forbidden_rejected_unseen_match_prev_segment : forall toc prev_objs prev_seg pre mid x es,
    let base := if toc_has toc TOC_NEWLIST then None else prev_seg in
    fold_entries base prev_objs (match base with Some l => l | None => [] end) pre = Ok mid ->
    unseen base prev_objs (e_path x) -> e_idx x = IMatchPrev ->
    read_segment_objects toc (Some (pre ++ x :: es)) prev_objs prev_seg = Err EValue.
Proof. exact SegStateInherit.forbidden_rejected_unseen_match_prev_segment. Qed.

Theorem forbidden_rejected_type_change : forall m o n f t,
    om_dtype m = Some t -> so_dtype o <> Some t ->
    update_ometa m o n f = Err EValue.
Proof. exact SegStateInherit.forbidden_rejected_type_change. Qed.

Theorem forbidden_rejected_type_change_segment : forall o r n f prev_objs om m t,
    alookup (so_path o) om = Some m -> om_dtype m = Some t -> so_dtype o <> Some t ->
    update_object_metadata (o :: r) n f prev_objs om = Err EValue.
Proof. exact SegStateInherit.forbidden_rejected_type_change_segment. Qed.

(* ---- T4: the global map after a segment -------------------------------------- *)

Theorem prev_objs_tracks_segments : forall objs n f prev om prev' om',
    update_object_metadata objs n f prev om = Ok (prev', om') ->
    NoDup (map so_path objs) ->
    (forall o, In o objs -> alookup (so_path o) prev' = Some o) /\
    (forall p, ~ In p (map so_path objs) -> alookup p prev' = alookup p prev).
Proof. exact SegStateInherit.prev_objs_tracks_segments. Qed.

Theorem state_invariants_initial : prev_keys_ok [] /\ prev_wf [] /\ base_tracked None [].
Proof. exact SegStateInherit.state_invariants_initial. Qed.

Theorem state_invariants_preserved : forall objs n f prev_objs om prev' om',
    update_object_metadata objs n f prev_objs om = Ok (prev', om') ->
    prev_keys_ok prev_objs -> prev_wf prev_objs ->
    Forall (obj_ok prev_objs) objs -> NoDup (map so_path objs) ->
    prev_keys_ok prev' /\ prev_wf prev' /\ base_tracked (Some objs) prev'.
Proof. exact SegStateInherit.state_invariants_preserved. Qed.

(* ---- the multi-segment statement ----------------------------------------------- *)

(* [explicit_segs segs objss]: segment i keeps its version, raw data and ToC
   flags, gets the metadata and new-object-list flags, and a metadata block
   restating every object of [objss_i] ([idx_of]: full index or "no data")
   with the properties the original block attached to that path. *)
Theorem inheritance_transparent : forall segs w st,
    sm_run segs w = Ok st ->
    (* no segment's object list mentions a path twice *)
    Forall (fun g => NoDup (map so_path (sg_objs g))) (rs_segments st) ->
    (* no object has data without ever having received an index ("no data"
       followed by "matches previous", which the reader accepts) *)
    Forall (fun g => forall o, In o (sg_objs g) -> so_has_data o = true -> so_dtype o <> None)
           (rs_segments st) ->
    exists st',
      sm_run (explicit_segs segs (map sg_objs (rs_segments st))) w = Ok st' /\
      map sg_objs (rs_segments st') = map sg_objs (rs_segments st) /\
      map sg_index (rs_segments st') = map sg_index (rs_segments st) /\
      map sg_nchunks (rs_segments st') = map sg_nchunks (rs_segments st) /\
      map sg_final (rs_segments st') = map sg_final (rs_segments st) /\
      map (fun g => sg_next g - sg_data g) (rs_segments st') =
        map (fun g => sg_next g - sg_data g) (rs_segments st) /\
      map sg_incomplete (rs_segments st') = map sg_incomplete (rs_segments st) /\
      map sg_toc (rs_segments st') = map explicit_toc (map sg_toc (rs_segments st)) /\
      rs_om st' = rs_om st /\
      rs_prev_objs st' = rs_prev_objs st /\
      rs_version st' = rs_version st.
Proof. exact SegStateExplicit.inheritance_transparent. Qed.

(* the uniqueness condition from the syntax: no metadata block lists a path twice *)
Theorem inheritance_transparent_listed_once : forall segs w st,
    sm_run segs w = Ok st ->
    Forall listed_once segs ->
    Forall (fun g => forall o, In o (sg_objs g) -> so_has_data o = true -> so_dtype o <> None)
           (rs_segments st) ->
    exists st',
      sm_run (explicit_segs segs (map sg_objs (rs_segments st))) w = Ok st' /\ same_reading st st'.
Proof. exact SegStateExplicit.inheritance_transparent_listed_once. Qed.

(* on the bytes of serialised files *)
Theorem inheritance_transparent_files : forall segs w st,
    wf_file segs ->
    rd_metadata (ser_file segs) false (Some (blen (ser_file segs))) w = Ok st ->
    Forall listed_once segs ->
    Forall (fun g => forall o, In o (sg_objs g) -> so_has_data o = true -> so_dtype o <> None)
           (rs_segments st) ->
    let segs' := explicit_segs segs (map sg_objs (rs_segments st)) in
    wf_file segs' ->
    exists st',
      rd_metadata (ser_file segs') false (Some (blen (ser_file segs'))) w = Ok st' /\
      same_reading st st'.
Proof. exact SegStateExplicit.inheritance_transparent_files. Qed.

(* shape of the explicit stream *)
Theorem explicit_segs_shape : forall segs objss,
    Forall (fun objs => NoDup (map so_path objs)) objss ->
    Forall (fun s => listed_once s /\ fs_meta s <> None /\
                     toc_has (fs_toc s) TOC_META = true /\ toc_has (fs_toc s) TOC_NEWLIST = true)
           (explicit_segs segs objss).
Proof. exact SegStateExplicit.explicit_segs_shape. Qed.

Theorem explicit_segs_kept : forall segs objss,
    length objss = length segs ->
    map fs_version (explicit_segs segs objss) = map fs_version segs /\
    map fs_data (explicit_segs segs objss) = map fs_data segs /\
    map fs_toc (explicit_segs segs objss) = map explicit_toc (map fs_toc segs).
Proof. exact SegStateExplicit.explicit_segs_kept. Qed.

Theorem explicit_toc_other_flags : forall toc flag,
    Z.land TOC_META flag = 0 -> Z.land TOC_NEWLIST flag = 0 ->
    toc_has (explicit_toc toc) flag = toc_has toc flag.
Proof. exact SegStateExplicit.explicit_toc_other. Qed.

Print Assumptions index_cache_transparent.
Print Assumptions positional_update_is_update_by_path.
Print Assumptions new_list_update_is_update_by_path.
Print Assumptions segment_objects_paths.
Print Assumptions segment_objects_paths_new_list.
Print Assumptions segment_objects_paths_unique.
Print Assumptions segment_objects_paths_unique_new_list.
Print Assumptions explicit_reencoding_same_objects.
Print Assumptions explicit_reencoding_same_objects_spec.
Print Assumptions new_object_canonical.
Print Assumptions update_existing_canonical.
Print Assumptions reuse_previous_canonical.
Print Assumptions update_existing_indexed.
Print Assumptions reuse_previous_indexed.
Print Assumptions segment_objects_ok.
Print Assumptions inheritance_transparent_step.
Print Assumptions forbidden_rejected_first_without_metadata.
Print Assumptions forbidden_rejected_unseen_match_prev.
Print Assumptions forbidden_rejected_unseen_match_prev_never_ok.
Print Assumptions forbidden_rejected_unseen_match_prev_segment.
Print Assumptions forbidden_rejected_type_change.
Print Assumptions forbidden_rejected_type_change_segment.
Print Assumptions prev_objs_tracks_segments.
Print Assumptions state_invariants_initial.
Print Assumptions state_invariants_preserved.
(* concrete instances (Proofs/SegStateInherit.v): hypotheses are satisfiable, and
   the uniqueness / "has an index" side conditions are not idle *)
Print Assumptions positional_update_is_update_by_path_instance.
Print Assumptions stale_index_map_visible_when_listed_twice.
Print Assumptions new_list_listed_twice.
Print Assumptions explicit_reencoding_same_objects_instance.
Print Assumptions match_prev_after_only_no_data.
Print Assumptions forbidden_rejected_unseen_match_prev_instance.
Print Assumptions forbidden_rejected_type_change_instance.
Print Assumptions prev_objs_tracks_segments_instance.
Print Assumptions inheritance_transparent_step_instance.
Print Assumptions inheritance_transparent.
Print Assumptions inheritance_transparent_listed_once.
Print Assumptions inheritance_transparent_files.
Print Assumptions explicit_segs_shape.
Print Assumptions explicit_segs_kept.
Print Assumptions explicit_toc_other_flags.
Print Assumptions ex_stream_run.
Print Assumptions ex_stream_explicit.
Print Assumptions inheritance_transparent_instance.
Print Assumptions inheritance_transparent_files_instance.
