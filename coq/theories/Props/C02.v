(* C02 — Segment metadata inheritance never changes what is read.
   Statements only; proofs in Proofs/SegStateProofs.v (grown over time).
   FULL STATEMENT (see DESIGN.md section 7 C02):
     inherit_refines : expand ts = Ok c -> sm_run ts = Ok (abs c)
     explicit_fixpoint, forbidden_rejected. *)
From Coq Require Import List ZArith.
Import ListNotations.
From NpTdms Require Import Base.Bytes Base.Res Model.Tokens Model.SegState Model.Layout Model.Reader
     Proofs.SegStateProofs.

(* the path -> position index cache never returns a stale or foreign index:
   whatever the history of lookups, a hit equals the fresh computation *)
Theorem index_cache_transparent : forall c objs,
    cache_ok c ->
    fst (get_index c objs) = fresh_index (map so_path objs) /\ cache_ok (snd (get_index c objs)).
Proof. exact get_index_fresh. Qed.

Print Assumptions index_cache_transparent.
