(* C04 -- Windows, slices and indices mean what they mean on the full array.
   Statements only; proofs live in Proofs/Lazy*.v and Proofs/SliceProofs.v.

   Model: Model/LazyRead.v (abstract per-channel view of a file: per segment the
   chunk size, number of chunks, final chunk length, layout kind, chunk values).
   [lz_read] mirrors read_raw_data_for_channel + TdmsChannel._read_channel_data of
   the REPAIRED reader (dev/patches/D3.patch, D13.patch), [lz_read_asis] today's
   /repo at the time the defects were found.  [read_slice_gen] and
   [read_at_index_check] are translated from nptdms/tdms.py on every run
   (Gen/PySlice_gen.v). *)
From Coq Require Import ZArith List Bool.
From NpTdms Require Import Base.Res Base.PySlice Gen.PySlice_gen Model.LazyRead Model.LazyReadZ
     Proofs.LazyReadLemmas Proofs.LazyIndexProofs Proofs.LazyReadProofs Proofs.LazyWindowProofs
     Proofs.SliceProofs Proofs.LazyTopProofs.
Import ListNotations.
Open Scope Z_scope.

Section C04.
  Variable V : Type.
  Variable zero : V.

  (* (i) read_data(offs, len) = full[offs : offs+len], for every position of the
     window relative to segment and chunk boundaries, truncated final chunks,
     segments without the channel, offs beyond the end; both receiver kinds.
     [wf]: every segment's chunk list has the lengths its metadata declares
     (nchunks chunks of sv_chunk values, the last one sv_final when present,
     0 <= final <= chunk). *)
  Theorem window_correct : forall rk (segs : list (segv V)) offs len,
      wf V segs = true -> 0 <= offs -> (match len with None => True | Some l => 0 <= l end) ->
      lz_read V zero rk segs offs len =
      Ok (match len with
          | None => zskipn offs (full V segs)
          | Some l => zfirstn l (zskipn offs (full V segs))
          end).
  Proof. exact (LazyTopProofs.window_correct V zero). Qed.

  Theorem window_rejects_negative : forall rk (segs : list (segv V)) offs len,
      offs < 0 \/ (exists l, len = Some l /\ l < 0) ->
      lz_read V zero rk segs offs len = Err EValue.
  Proof. exact (lz_read_negative V zero). Qed.

  (* (ii) on the TRANSLATED _read_slice: executing its plan with the lazy reader
     is Python's full[start:stop:step]; step = 0 is ValueError on both sides
     (py_slice3 returns Err EValue).  Negative, out-of-range and None bounds,
     positive and negative steps, zero-length channels included. *)
  Theorem slice_plan_correct : forall rk (segs : list (segv V)) start stop step,
      wf V segs = true ->
      run_slice (fun a b => lz_read V zero rk segs a (Some b)) (total_values V segs) start stop step
      = py_slice3 (full V segs) start stop step.
  Proof. exact (LazyTopProofs.slice_plan_correct V zero). Qed.

  (* the same against an ideal reader, for any data (n = len(full) >= 0 is implicit) *)
  Theorem slice_plan_correct_ideal : forall (data : list V) start stop step,
      run_slice (read_ideal data) (zlen data) start stop step = py_slice3 data start stop step.
  Proof. exact (@SliceProofs.slice_plan_correct_ideal V). Qed.

  (* (iii) channel[i]: the value NumPy indexing gives (negative indices wrap once)
     or IndexError, whatever chunk the cache currently holds *)
  Theorem index_correct : forall (segs : list (segv V)) st i,
      wf V segs = true -> cache_inv V segs st ->
      match py_index (full V segs) i with
      | Ok x => exists st' log, read_at_index V segs st i = Ok (x, st', log) /\ cache_inv V segs st'
      | Err _ => read_at_index V segs st i = Err EIndex
      end.
  Proof.
    intros segs st i Hwf Hinv. pose proof (LazyTopProofs.index_correct V segs st i Hwf Hinv) as H.
    destruct (py_index (full V segs) i); [|exact H].
    destruct H as (st' & log & H1 & H2 & _). eauto.
  Qed.

  (* (iv) the eager path: slice_raw_data is the same window *)
  Theorem eager_window_correct : forall (data : list V) offs len,
      0 <= offs -> (match len with None => True | Some l => 0 <= l end) ->
      eager_read V data offs len =
      match len with None => zskipn offs data | Some l => zfirstn l (zskipn offs data) end.
  Proof. exact (LazyTopProofs.eager_window_correct V). Qed.
End C04.

(* Python's slice semantics used above is tied to CPython's element loop *)
Check @py_slice3_nth_pos.
Check @py_slice3_nth_neg.
Check @py_slice_neg_stop.

(* ---- the unrepaired loop is refuted (DESIGN section 9, D3) ----------------- *)
(* segments a(4) | b only | a(4) x 3 chunks ; read_data(0, 6) *)
Definition d3_file : list segz :=
  [ mk 4 1 None false [[1; 2; 3; 4]];
    mk 0 1 None false [[]];
    mk 4 3 None false [[5; 6; 7; 8]; [9; 10; 11; 12]; [13; 14; 15; 16]] ].

Theorem window_refuted : exists (segs : list segz) offs len,
    wf Z segs = true /\ 0 <= offs /\ 0 <= len /\
    (forall rk, lz_read_asis Z 0 rk segs offs (Some len) <> Ok (zfirstn len (zskipn offs (full Z segs)))).
Proof.
  exists d3_file, 0, 6. repeat split; try (vm_compute; congruence).
  intros rk. destruct rk; vm_compute; congruence.
Qed.

(* what today's code does on the witness: ValueError for NumPy receivers,
   silently two values too many for strings *)
Example d3_numpy : lz_read_asis Z 0 RNumpy d3_file 0 (Some 6) = Err EValue.
Proof. vm_compute. reflexivity. Qed.
Example d3_strings : lz_read_asis Z 0 RList d3_file 0 (Some 6) = Ok [1; 2; 3; 4; 5; 6; 9; 10].
Proof. vm_compute. reflexivity. Qed.
Example d3_repaired : forall rk, lz_read Z 0 rk d3_file 0 (Some 6) = Ok [1; 2; 3; 4; 5; 6].
Proof. intros rk. rewrite window_correct by (vm_compute; congruence). reflexivity. Qed.

(* D13: final chunk in which the channel has no values *)
Definition d13_file : list segz := [ mk 4 3 (Some 0) false [[0; 1; 2; 3]; [4; 5; 6; 7]; []] ].
Theorem window_refuted_d13 :
    wf Z d13_file = true /\
    lz_read_asis Z 0 RNumpy d13_file 0 (Some 2) = Err EValue /\
    lz_read_asis Z 0 RList d13_file 0 (Some 2) = Ok [0; 1; 4; 5] /\
    lz_read Z 0 RNumpy d13_file 0 (Some 2) = Ok [0; 1].
Proof. repeat split; vm_compute; reflexivity. Qed.

(* ---- non-vacuity: a file with an absent-channel segment, multi-chunk segments,
   an interleaved segment and a truncated final chunk satisfies wf, and the
   theorems apply to it ------------------------------------------------------ *)
Definition ex_file : list segz :=
  [ mk 3 2 None false [[1; 2; 3]; [4; 5; 6]];
    mk 0 2 None false [[]; []];
    mk 4 0 None false [];
    mk 4 2 None true [[7; 8; 9; 10]; [11; 12; 13; 14]];
    mk 5 3 (Some 2) false [[15; 16; 17; 18; 19]; [20; 21; 22; 23; 24]; [25; 26]] ].

Example ex_wf : wf Z ex_file = true.
Proof. vm_compute. reflexivity. Qed.

Example ex_window : lz_read Z 0 RNumpy ex_file 4 (Some 19) =
                    Ok [5; 6; 7; 8; 9; 10; 11; 12; 13; 14; 15; 16; 17; 18; 19; 20; 21; 22; 23].
Proof. rewrite window_correct by (vm_compute; congruence). vm_compute. reflexivity. Qed.

Example ex_window_eval : lz_read Z 0 RNumpy ex_file 4 (Some 19) =
                         Ok [5; 6; 7; 8; 9; 10; 11; 12; 13; 14; 15; 16; 17; 18; 19; 20; 21; 22; 23].
Proof. vm_compute. reflexivity. Qed.

Example ex_slice : run_slice (fun a b => lz_read Z 0 RNumpy ex_file a (Some b)) (total_values Z ex_file)
                             (Some (-3)) (Some (-30)) (Some (-7))
                   = Ok [24; 17; 10; 3].
Proof. rewrite slice_plan_correct by exact ex_wf. vm_compute. reflexivity. Qed.

Example ex_index : exists st' log, read_at_index Z ex_file None (-4) = Ok (23, st', log).
Proof.
  pose proof (index_correct Z ex_file None (-4) ex_wf I) as H.
  vm_compute in H. destruct H as (st' & log & H & _). eauto.
Qed.

Example ex_index_error : read_at_index Z ex_file None 26 = Err EIndex /\
                         read_at_index Z ex_file None (-27) = Err EIndex.
Proof. split; vm_compute; reflexivity. Qed.

Print Assumptions window_correct.
Print Assumptions window_rejects_negative.
Print Assumptions slice_plan_correct.
Print Assumptions slice_plan_correct_ideal.
Print Assumptions index_correct.
Print Assumptions eager_window_correct.
Print Assumptions window_refuted.
Print Assumptions window_refuted_d13.
Print Assumptions py_slice3_nth_pos.
Print Assumptions py_slice3_nth_neg.
