(* C04 -- stub, being built *)
From Coq Require Import ZArith List Bool.
From NpTdms Require Import Base.Res Base.PySlice Model.LazyRead Model.LazyReadZ.
Import ListNotations. Open Scope Z_scope.
Example stub : True. Proof. exact I. Qed.
Print Assumptions stub.
