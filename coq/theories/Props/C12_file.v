(* C12 carried through the file - timestamps written are the timestamps read.

   Props/C12.v is about the codec functions; here they are composed with the
   writer -> reader theorem write_read (Props/C07_read.v) and with
   defragment (Props/C10_read.v).  Proofs in Proofs/TsFile.v (on top of
   Proofs/NamesFile.v).

   Python-level calls (Proofs/TsFile.v, section B).  On top of Model/Writer.v's
   pyobj level:
     TPDatetime n d     property n = datetime / np.datetime64, d = microseconds
                        since 1970 (the datetime64[us] integer)
     TPRaw n s f        property n = TdmsTimestamp(seconds s, second_fractions f)
     TDDatetimes ds     channel data = array of datetime64[us]
     TDRaw l            channel data = TimestampArray / list of TdmsTimestamp,
                        l = the (seconds, second_fractions) pairs
     TPPy / TDPy        everything Model/Writer.v already lowers
   [lower_ts_file] composes the C12 encoder with the writer model's typed
   value: TimeStamp.__init__ = [enc_dt], the 16 bytes = [wr_ts LE] (refused
   with struct.error outside the 'q' / 'Q' ranges), TDMS type 0x44; empty
   datetime / timestamp data has no determinable type and becomes Void (as
   ChannelObject.data_type does); then Writer.lower_obj.  The model's bytes for
   the example below are byte for byte those of nptdms.TdmsWriter and
   TdmsWriter.defragment ([c12_file_evaluates]).

   Everything else is inherited from write_read: any number of sessions and
   calls, other objects of any kind around, properties overwritten, channels
   extended over segments and append sessions.  Hypotheses: lowering succeeds
   and write_read's four (wf_file, sizes_below_marker, dtypes_consistent,
   wr_file = Ok).  The datetime theorems additionally ask [dt_ok d]: the
   supported range of Props/C12.v ts_roundtrip_datetime64 (d - epoch and the
   start of d's second fit int64; every datetime64[us] except the first second
   and the last 66 years of its range); inside it lowering never fails
   ([supported_datetime_encodes]).  Raw timestamps need NO range hypothesis:
   acceptance by the writer already puts seconds in int64 and fractions in
   uint64.

   What "the channel (g, c) is written with datetimes" means:
     ts_writes g c tpy = map TDDatetimes dss
   - the data arguments of ALL ChannelObject(g, c, ..) passed in, over all calls
   of all sessions in order, are the datetime arrays dss (raw: map raw_of .. =
   map Some ls, which also admits datetime arrays via enc_dt); at least one
   value in total (otherwise the channel is read back untyped and empty:
   [timestamp_channel_empty_file]).
   What "property n of object k is written with ..." means:
     ts_prop_writes k n tpy = earlier ++ [TPDatetime n d]
   - the LAST value given to property n of the root (k = KRoot), the group g
   (KGroup g) or the channel (KChan g c) is the datetime d.

   Conclusions are stated on the reader model's result: rd_all data = Ok
   (file_tokens ss, true) with file_tokens = content_tokens_of_calls; the
   channel is found under its names ([lookup_chan]); its data type is TimeStamp
   (0x44), its values [vals] are 16-byte strings which the C12 decoders take
   back to what was written:
     rd_ts LE b                    TimeStamp.read / from_bytes (little endian)
     dec_dt                        TdmsTimestamp.as_datetime64('us')
     conv_array Rus                TimestampArray.as_datetime64('us')
   and the flat token list contains the block  name; group; path; 0x44; n;
   properties; 0; n; the n values.  A timestamp property is observed as
   [TB name; TZ 4; TZ seconds; TZ second_fractions] (Model/Reader.v
   obs_prop_value, raw_timestamps=True) inside the property list of its object
   ([kind_props]).

   Through defragment ([raw_timestamp_defragment_file], ..): c0 = [read_content
   ss] is the content TdmsFile(source, raw_timestamps=True) hands to
   TdmsWriter.defragment, assembled from exactly the hierarchy and channel data
   write_read proves the reader reports (= DefragRead.content_of_read on the
   chunks decoded from the written segments, [read_content_is_content_of_read]).
   Hypotheses on the destination as in defrag_read (Props/C10_read.v): wf_file
   and sizes_below_marker of defragment's calls ("the writer accepts what the
   reader produced"; holds in the example).  Conclusion: the destination
   reports the IDENTICAL channel record, the identical values (hence the same
   decoded timestamps), the identical token block, and identical property
   dictionaries.  [defrag_channel_preserved] is the general fact behind it (any
   typed channel with at least one value).

   All statements are over Z / bytes: closed under the global context. *)
From Coq Require Import List ZArith Bool Lia.
From Coq Require Import Init.Byte.
Import ListNotations.
From NpTdms Require Import Base.Bytes Base.Res Model.Timestamp.
From NpTdms Require Import Model.Tokens Model.TokensWf Model.ByteStr Model.StrictParse Model.Writer Model.Defrag.
From NpTdms Require Import Model.SegState Model.Layout Model.Reader Proofs.ReadCorrect
  Proofs.WriteReadSpec Proofs.WriteReadBytes Proofs.WriteReadData Proofs.DefragRead Proofs.NamesFile Proofs.TsFile.
Local Open Scope Z_scope.

(* ---- the encoder against the writer's typed value ------------------------------------------------------- *)

(* a datetime in the supported range is always accepted *)
Theorem supported_datetime_encodes : forall d, dt_ok d -> exists b, dt_bytes d = Ok b.
Proof. exact dt_bytes_ok. Qed.

(* what the writer accepts is 16 bytes that read back as the fields passed in *)
Theorem timestamp_value_roundtrip : forall sf b,
  ts_bytes sf = Ok b ->
  length b = 16%nat /\ rd_ts LE b = Some sf /\ in_i64 (fst sf) /\ in_u64 (snd sf).
Proof. exact ts_bytes_inv. Qed.

(* ---- write -> read ------------------------------------------------------------------------------------------- *)

Theorem datetime_channel_roundtrip_file : forall tpy ss data index g c dss,
  lower_ts_file tpy = Ok ss ->
  Writer.wf_file ss = true -> sizes_below_marker ss = true -> dtypes_consistent ss = true ->
  wr_file ss = Ok (data, index) ->
  ts_writes g c tpy = map TDDatetimes dss -> concat dss <> [] ->
  Forall dt_ok (concat dss) ->
  let ch := chan_by_name (written ss) g c in
  exists vals,
    rd_all data = Ok (file_tokens ss, true) /\
    lookup_chan (content_hierarchy (obj_seq ss)) g c = Some ch /\
    ch_name ch = c /\ ch_group ch = g /\ ch_dtype ch = Some T_TIME /\
    ch_len ch = Z.of_nat (length (concat dss)) /\
    content_data (obj_seq ss) ch = Some (CData vals) /\
    Forall (fun b => length b = 16%nat) vals /\
    map (fun b => option_map dec_dt (rd_ts LE b)) vals = map Some (concat dss) /\
    map (fun b => option_map (fun sf => conv_array Rus (fst sf) (snd sf)) (rd_ts LE b)) vals
      = map Some (concat dss) /\
    has_block (file_tokens ss)
      (TB c :: TB g :: TB (chan_path g c) :: TZ T_TIME :: TZ (Z.of_nat (length (concat dss))) ::
       obs_props (ch_props ch) ++ TZ 0 :: TZ (Z.of_nat (length (concat dss))) :: map TB vals).
Proof. exact datetime_channel_lemma. Qed.

Theorem datetime_property_roundtrip_file : forall tpy ss data index k n earlier d,
  lower_ts_file tpy = Ok ss ->
  Writer.wf_file ss = true -> sizes_below_marker ss = true -> dtypes_consistent ss = true ->
  wr_file ss = Ok (data, index) ->
  ts_prop_writes k n tpy = earlier ++ [TPDatetime n d] -> dt_ok d ->
  exists b ps s f,
    length b = 16%nat /\ rd_ts LE b = Some (s, f) /\
    rd_all data = Ok (file_tokens ss, true) /\
    kind_props (content_hierarchy (obj_seq ss)) k = Some ps /\
    alookup n ps = Some (mkProp n T_TIME b) /\
    obs_prop_value T_TIME b = [TZ 4; TZ s; TZ f] /\
    has_block (file_tokens ss) [TB n; TZ 4; TZ s; TZ f] /\
    dec_dt (s, f) = d /\ conv_array Rus s f = d /\ in_i64 ((EPOCH_S + s) * 1000000).
Proof. exact datetime_property_lemma. Qed.

(* raw timestamps as channel data: bit-exact *)
Theorem raw_timestamp_roundtrip_file : forall tpy ss data index g c ls,
  lower_ts_file tpy = Ok ss ->
  Writer.wf_file ss = true -> sizes_below_marker ss = true -> dtypes_consistent ss = true ->
  wr_file ss = Ok (data, index) ->
  map raw_of (ts_writes g c tpy) = map Some ls -> concat ls <> [] ->
  let ch := chan_by_name (written ss) g c in
  exists vals,
    Forall2 encodes (concat ls) vals /\
    map (rd_ts LE) vals = map Some (concat ls) /\
    rd_all data = Ok (file_tokens ss, true) /\
    lookup_chan (content_hierarchy (obj_seq ss)) g c = Some ch /\
    ch_name ch = c /\ ch_group ch = g /\ ch_dtype ch = Some T_TIME /\
    ch_len ch = Z.of_nat (length (concat ls)) /\
    content_data (obj_seq ss) ch = Some (CData vals) /\
    has_block (file_tokens ss)
      (TB c :: TB g :: TB (chan_path g c) :: TZ T_TIME :: TZ (Z.of_nat (length (concat ls))) ::
       obs_props (ch_props ch) ++ TZ 0 :: TZ (Z.of_nat (length (concat ls))) :: map TB vals).
Proof. exact raw_channel_lemma. Qed.

(* only EMPTY datetime / timestamp arrays were passed for (g, c): the channel is
   there, without data type and without data (no case is excluded from the
   theorems: >= 1 value above, 0 values here) *)
Theorem timestamp_channel_empty_file : forall tpy ss data index g c ls,
  lower_ts_file tpy = Ok ss ->
  Writer.wf_file ss = true -> sizes_below_marker ss = true -> dtypes_consistent ss = true ->
  wr_file ss = Ok (data, index) ->
  map raw_of (ts_writes g c tpy) = map Some ls -> ls <> [] -> concat ls = [] ->
  let ch := chan_by_name (written ss) g c in
  rd_all data = Ok (file_tokens ss, true) /\
  lookup_chan (content_hierarchy (obj_seq ss)) g c = Some ch /\
  ch_name ch = c /\ ch_group ch = g /\ ch_dtype ch = None /\ ch_len ch = 0 /\
  content_data (obj_seq ss) ch = None.
Proof. exact raw_channel_empty_lemma. Qed.

(* raw timestamp (or datetime, via enc_dt) as a property: the fields observed
   are exactly the fields of the last value given *)
Theorem raw_timestamp_property_roundtrip_file : forall tpy ss data index k n earlier p sf,
  lower_ts_file tpy = Ok ss ->
  Writer.wf_file ss = true -> sizes_below_marker ss = true -> dtypes_consistent ss = true ->
  wr_file ss = Ok (data, index) ->
  ts_prop_writes k n tpy = earlier ++ [p] -> raw_prop_of p = Some sf ->
  exists b ps,
    encodes sf b /\ length b = 16%nat /\ rd_ts LE b = Some sf /\
    rd_all data = Ok (file_tokens ss, true) /\
    kind_props (content_hierarchy (obj_seq ss)) k = Some ps /\
    alookup n ps = Some (mkProp n T_TIME b) /\
    obs_prop_value T_TIME b = [TZ 4; TZ (fst sf); TZ (snd sf)] /\
    has_block (file_tokens ss) [TB n; TZ 4; TZ (fst sf); TZ (snd sf)].
Proof. exact raw_property_lemma. Qed.

(* ---- write -> read -> defragment -> read ------------------------------------------------------------------- *)

Theorem raw_timestamp_defragment_file : forall tpy ss data index g c ls v' data' index',
  lower_ts_file tpy = Ok ss ->
  Writer.wf_file ss = true -> sizes_below_marker ss = true -> dtypes_consistent ss = true ->
  wr_file ss = Ok (data, index) ->
  map raw_of (ts_writes g c tpy) = map Some ls -> concat ls <> [] ->
  let c0 := read_content ss in
  Writer.wf_file [(v', defrag_calls c0)] = true ->
  sizes_below_marker [(v', defrag_calls c0)] = true ->
  defrag v' c0 = Ok (data', index') ->
  let ch := chan_by_name (written ss) g c in
  exists vals,
    map (rd_ts LE) vals = map Some (concat ls) /\
    ch_dtype ch = Some T_TIME /\
    rd_all data = Ok (file_tokens ss, true) /\
    lookup_chan (content_hierarchy (obj_seq ss)) g c = Some ch /\
    content_data (obj_seq ss) ch = Some (CData vals) /\
    rd_all data' = Ok (content_tokens_of_seq v' (defrag_seq c0), true) /\
    lookup_chan (content_hierarchy (defrag_seq c0)) g c = Some ch /\
    content_data (defrag_seq c0) ch = Some (CData vals) /\
    let B := TB c :: TB g :: TB (chan_path g c) :: TZ T_TIME :: TZ (Z.of_nat (length (concat ls))) ::
             obs_props (ch_props ch) ++ TZ 0 :: TZ (Z.of_nat (length (concat ls))) :: map TB vals in
    has_block (file_tokens ss) B /\ has_block (content_tokens_of_seq v' (defrag_seq c0)) B.
Proof. exact raw_defragment_lemma. Qed.

Theorem datetime_defragment_file : forall tpy ss data index g c dss v' data' index',
  lower_ts_file tpy = Ok ss ->
  Writer.wf_file ss = true -> sizes_below_marker ss = true -> dtypes_consistent ss = true ->
  wr_file ss = Ok (data, index) ->
  ts_writes g c tpy = map TDDatetimes dss -> concat dss <> [] ->
  Forall dt_ok (concat dss) ->
  let c0 := read_content ss in
  Writer.wf_file [(v', defrag_calls c0)] = true ->
  sizes_below_marker [(v', defrag_calls c0)] = true ->
  defrag v' c0 = Ok (data', index') ->
  let ch := chan_by_name (written ss) g c in
  exists vals,
    map (fun b => option_map dec_dt (rd_ts LE b)) vals = map Some (concat dss) /\
    map (fun b => option_map (fun sf => conv_array Rus (fst sf) (snd sf)) (rd_ts LE b)) vals
      = map Some (concat dss) /\
    ch_dtype ch = Some T_TIME /\
    rd_all data = Ok (file_tokens ss, true) /\
    lookup_chan (content_hierarchy (obj_seq ss)) g c = Some ch /\
    content_data (obj_seq ss) ch = Some (CData vals) /\
    rd_all data' = Ok (content_tokens_of_seq v' (defrag_seq c0), true) /\
    lookup_chan (content_hierarchy (defrag_seq c0)) g c = Some ch /\
    content_data (defrag_seq c0) ch = Some (CData vals).
Proof. exact datetime_defragment_lemma. Qed.

Theorem raw_timestamp_property_defragment_file : forall tpy ss data index k n earlier p sf v' data' index',
  lower_ts_file tpy = Ok ss ->
  Writer.wf_file ss = true -> sizes_below_marker ss = true -> dtypes_consistent ss = true ->
  wr_file ss = Ok (data, index) ->
  ts_prop_writes k n tpy = earlier ++ [p] -> raw_prop_of p = Some sf ->
  let c0 := read_content ss in
  Writer.wf_file [(v', defrag_calls c0)] = true ->
  sizes_below_marker [(v', defrag_calls c0)] = true ->
  defrag v' c0 = Ok (data', index') ->
  exists b ps,
    rd_ts LE b = Some sf /\
    rd_all data = Ok (file_tokens ss, true) /\
    kind_props (content_hierarchy (obj_seq ss)) k = Some ps /\
    rd_all data' = Ok (content_tokens_of_seq v' (defrag_seq c0), true) /\
    kind_props (content_hierarchy (defrag_seq c0)) k = Some ps /\
    alookup n ps = Some (mkProp n T_TIME b) /\
    obs_prop_value T_TIME b = [TZ 4; TZ (fst sf); TZ (snd sf)] /\
    has_block (file_tokens ss) [TB n; TZ 4; TZ (fst sf); TZ (snd sf)] /\
    has_block (content_tokens_of_seq v' (defrag_seq c0)) [TB n; TZ 4; TZ (fst sf); TZ (snd sf)].
Proof. exact raw_property_defragment_lemma. Qed.

(* the general fact: a typed channel with at least one value is reported by the
   defragmented file with the identical record, values and token block *)
Theorem defrag_channel_preserved : forall ss v' data' index' g c ty x vals,
  In g (group_names (obj_seq ss)) -> In c (chan_names g (obj_seq ss)) ->
  let S := obj_seq ss in
  let ch := content_channel S g c in
  let c0 := read_content ss in
  ch_dtype ch = Some ty -> ty <> T_VOID ->
  content_data S ch = Some (CData (x :: vals)) ->
  Writer.wf_file [(v', defrag_calls c0)] = true ->
  sizes_below_marker [(v', defrag_calls c0)] = true ->
  defrag v' c0 = Ok (data', index') ->
  rd_all data' = Ok (content_tokens_of_seq v' (defrag_seq c0), true) /\
  lookup_chan (content_hierarchy (defrag_seq c0)) g c = Some ch /\
  content_data (defrag_seq c0) ch = Some (CData (x :: vals)) /\
  has_block (content_tokens_of_seq v' (defrag_seq c0))
            (chan_block (fun _ => obs_cdata (Some (CData (x :: vals)))) ch).
Proof. exact defrag_channel_lemma. Qed.

(* [read_content] is C10's content_of_read on the chunks of the written file *)
Theorem read_content_is_content_of_read : forall ss data index,
  Writer.wf_file ss = true -> sizes_below_marker ss = true -> wr_file ss = Ok (data, index) ->
  exists sl, sorted_file ss = Ok sl /\ data = FileSyn.ser_file (fsegs_of sl) /\
    read_content ss =
    content_of_read (content_hierarchy (obj_seq ss))
                    (concat (map (fun vs : Z * list wobj => chunks_of (snd vs)) sl)).
Proof.
  intros ss data index Hwf Hsz Hwr.
  destruct (written_file_chunks ss data index Hwf Hsz Hwr) as (sl & Hsl & Hd & Hv).
  exists sl. split; [exact Hsl|]. split; [exact Hd|]. apply read_content_of_read. exact Hv.
Qed.

(* ---- non-vacuity ------------------------------------------------------------------------------------------------- *)

Section Examples.
Import String.
Local Open Scope string_scope.

(* 2020-01-01T00:00:16.000001: the datetime the float code before repair D5
   read back one microsecond early (Props/C12.v c12_roundtrip_2020 /
   roundtrip_refuted); a pre-1904 datetime (negative seconds) *)
Definition d2020 : Z := 1577836816000001.
Definition d1903 : Z := -2082844801500001.

(* session 1: root property t = d2020; channel g/c = [d2020; d1903] with
   properties w = d2020 (datetime) and r = TdmsTimestamp(-2, ...); channel g/r =
   TimestampArray of two raw timestamps.  session 2 (append): g/c extended by
   d2020 + 1us and its property w overwritten; g/r extended by the largest
   fraction 2^64 - 1; g/e an EMPTY datetime array (read back untyped, empty) *)
Definition c12_file_calls : tssessions :=
  [(4712, [[TsRoot [TPDatetime (hex "74") d2020];
            TsChan (hex "67") (hex "63") (TDDatetimes [d2020; d1903])
                   [TPDatetime (hex "77") d2020; TPRaw (hex "72") (-2) 9223353590110702099];
            TsChan (hex "67") (hex "72")
                   (TDRaw [(-2, 9223353590110702099); (3524551547, 12345678900000000000)]) []]]);
   (4712, [[TsChan (hex "67") (hex "63") (TDDatetimes [d2020 + 1]) [TPDatetime (hex "77") (d2020 + 1)];
            TsChan (hex "67") (hex "72") (TDRaw [(0, 2 ^ 64 - 1)]) [];
            TsChan (hex "67") (hex "65") (TDDatetimes []) []]])].

Definition c12_file_tokens (version : Z) : list tok :=
  [TZ version; TZ 1; TB (hex "74"); TZ 4; TZ 3660681616; TZ 18446744073710;
   TZ 1;
   TB (hex "67"); TZ 0; TZ 3;
     TB (hex "63"); TB (hex "67"); TB (hex "2f2767272f276327"); TZ 68; TZ 3;
       TZ 2; TB (hex "77"); TZ 4; TZ 3660681616; TZ 36893488147420;
             TB (hex "72"); TZ 4; TZ (-2); TZ 9223353590110702099;
       TZ 0; TZ 3; TB (hex "eeb5a0f7c6100000909131da00000000");
                   TB (hex "134a5f0839efff7ffeffffffffffffff");
                   TB (hex "dc6b41ef8d210000909131da00000000");
     TB (hex "72"); TB (hex "67"); TB (hex "2f2767272f277227"); TZ 68; TZ 3; TZ 0;
       TZ 0; TZ 3; TB (hex "134a5f0839efff7ffeffffffffffffff");
                   TB (hex "000889a18ca954ab7b6314d200000000");
                   TB (hex "ffffffffffffffff0000000000000000");
     TB (hex "65"); TB (hex "67"); TB (hex "2f2767272f276527"); TZ (-1); TZ 0; TZ 0;
       TZ 2;
   TZ 0; TZ 0].

(* Everything evaluated: lowering succeeds, write_read's hypotheses hold, the
   model's bytes ARE the bytes nptdms.TdmsWriter wrote for these calls (first
   hex literal, /repo HEAD), the reader model gives c12_file_tokens 4712; the
   hypotheses of the defragment theorems hold, the model's destination bytes
   ARE the bytes TdmsWriter.defragment(source, dest, version=4713) wrote
   (second literal) and read back as the same tokens with version 4713. *)
Definition c12_file_check : bool :=
  match lower_ts_file c12_file_calls with
  | Ok low =>
    Writer.wf_file low && sizes_below_marker low && dtypes_consistent low &&
    toks_eqb (file_tokens low) (c12_file_tokens 4712) &&
    match wr_file low with
    | Ok (d, _) =>
      ByteStr.bytes_eqb d (hex "5444536d0e00000068120000f400000000000000b40000000000000004000000010000002fffffffff01000000010000007444000000eeb5a0f7c6100000909131da00000000040000002f276727ffffffff00000000080000002f2767272f276327140000004400000001000000020000000000000002000000010000007744000000eeb5a0f7c6100000909131da00000000010000007244000000134a5f0839efff7ffeffffffffffffff080000002f2767272f277227140000004400000001000000020000000000000000000000eeb5a0f7c6100000909131da00000000134a5f0839efff7ffeffffffffffffff134a5f0839efff7ffeffffffffffffff000889a18ca954ab7b6314d2000000005444536d0e00000068120000b600000000000000960000000000000005000000010000002fffffffff00000000040000002f276727ffffffff00000000080000002f2767272f276327140000004400000001000000010000000000000001000000010000007744000000dc6b41ef8d210000909131da00000000080000002f2767272f277227140000004400000001000000010000000000000000000000080000002f2767272f276527ffffffff00000000dc6b41ef8d210000909131da00000000ffffffffffffffff0000000000000000") &&
      match rd_all d with Ok (t, true) => toks_eqb t (c12_file_tokens 4712) | _ => false end
    | Err _ => false
    end &&
    let c0 := read_content low in
    Writer.wf_file [(4713, defrag_calls c0)] && sizes_below_marker [(4713, defrag_calls c0)] &&
    match defrag 4713 c0 with
    | Ok (d', _) =>
      ByteStr.bytes_eqb d' (hex "5444536d0e000000691200002a000000000000002a0000000000000001000000010000002fffffffff01000000010000007444000000eeb5a0f7c6100000909131da000000005444536d0e000000691200001400000000000000140000000000000001000000040000002f276727ffffffff000000005444536d0e000000691200008a000000000000005a0000000000000001000000080000002f2767272f276327140000004400000001000000030000000000000002000000010000007744000000dc6b41ef8d210000909131da00000000010000007244000000134a5f0839efff7ffeffffffffffffffeeb5a0f7c6100000909131da00000000134a5f0839efff7ffeffffffffffffffdc6b41ef8d210000909131da000000005444536d0e000000691200005800000000000000280000000000000001000000080000002f2767272f277227140000004400000001000000030000000000000000000000134a5f0839efff7ffeffffffffffffff000889a18ca954ab7b6314d200000000ffffffffffffffff00000000000000005444536d0e000000691200001800000000000000180000000000000001000000080000002f2767272f276527ffffffff00000000") &&
      match rd_all d' with Ok (t, true) => toks_eqb t (c12_file_tokens 4713) | _ => false end
    | Err _ => false
    end
  | Err _ => false
  end.

Example c12_file_evaluates : c12_file_check = true.
Proof. vm_compute. reflexivity. Qed.

(* decoding what the reader reports for channel g/c gives the three datetimes
   back (scalar and array decoder), its property w reads as the LAST value
   given, d2020 + 1us *)
Example c12_file_decodes :
  map (fun b => option_map dec_dt (rd_ts LE b))
      [hex "eeb5a0f7c6100000909131da00000000"; hex "134a5f0839efff7ffeffffffffffffff";
       hex "dc6b41ef8d210000909131da00000000"] = map Some [d2020; d1903; d2020 + 1] /\
  dec_dt (3660681616, 18446744073710) = d2020 /\
  dec_dt (3660681616, 36893488147420) = d2020 + 1 /\
  conv_array Rus 3660681616 36893488147420 = d2020 + 1.
Proof. vm_compute. repeat split. Qed.

Example c12_dt_ok : dt_ok d2020 /\ dt_ok d1903 /\ dt_ok (d2020 + 1).
Proof. unfold dt_ok, d2020, d1903, TDMS_EPOCH_US. lia. Qed.

(* the theorems apply to the example (hypotheses satisfiable), and yield what
   the evaluation shows *)
Example c12_file_by_theorem :
  exists low data index data' index',
    lower_ts_file c12_file_calls = Ok low /\
    wr_file low = Ok (data, index) /\
    defrag 4713 (read_content low) = Ok (data', index') /\
    rd_all data = Ok (file_tokens low, true) /\
    (* channel g/c: datetimes *)
    (exists vals,
       content_data (obj_seq low) (chan_by_name (written low) (hex "67") (hex "63")) = Some (CData vals) /\
       content_data (defrag_seq (read_content low)) (chan_by_name (written low) (hex "67") (hex "63"))
         = Some (CData vals) /\
       map (fun b => option_map dec_dt (rd_ts LE b)) vals = map Some [d2020; d1903; d2020 + 1]) /\
    (* channel g/r: raw timestamps, source and destination *)
    (exists vals,
       content_data (obj_seq low) (chan_by_name (written low) (hex "67") (hex "72")) = Some (CData vals) /\
       content_data (defrag_seq (read_content low)) (chan_by_name (written low) (hex "67") (hex "72"))
         = Some (CData vals) /\
       map (rd_ts LE) vals =
       map Some [(-2, 9223353590110702099); (3524551547, 12345678900000000000); (0, 2 ^ 64 - 1)]) /\
    (* property w of g/c: the last value, d2020 + 1us; root property t: d2020 *)
    (exists s f, has_block (file_tokens low) [TB (hex "77"); TZ 4; TZ s; TZ f] /\ dec_dt (s, f) = d2020 + 1) /\
    (exists s f, has_block (file_tokens low) [TB (hex "74"); TZ 4; TZ s; TZ f] /\ dec_dt (s, f) = d2020) /\
    (* property r of g/c: the raw pair, in the source and in the destination *)
    has_block (file_tokens low) [TB (hex "72"); TZ 4; TZ (-2); TZ 9223353590110702099] /\
    has_block (content_tokens_of_seq 4713 (defrag_seq (read_content low)))
              [TB (hex "72"); TZ 4; TZ (-2); TZ 9223353590110702099].
Proof.
  destruct (lower_ts_file c12_file_calls) as [low|e] eqn:El; [|vm_compute in El; discriminate].
  assert (Hl : Ok low = lower_ts_file c12_file_calls) by (symmetry; exact El).
  vm_compute in Hl. injection Hl as Hlow.
  assert (Hwf : Writer.wf_file low = true) by (rewrite Hlow; vm_compute; reflexivity).
  assert (Hsz : sizes_below_marker low = true) by (rewrite Hlow; vm_compute; reflexivity).
  assert (Hdt : dtypes_consistent low = true) by (rewrite Hlow; vm_compute; reflexivity).
  assert (Hwf' : Writer.wf_file [(4713, defrag_calls (read_content low))] = true)
    by (rewrite Hlow; vm_compute; reflexivity).
  assert (Hsz' : sizes_below_marker [(4713, defrag_calls (read_content low))] = true)
    by (rewrite Hlow; vm_compute; reflexivity).
  destruct (wr_file low) as [[d i]|e] eqn:E; [|exfalso; rewrite Hlow in E; vm_compute in E; discriminate].
  destruct (defrag 4713 (read_content low)) as [[d' i']|e] eqn:E';
    [|exfalso; rewrite Hlow in E'; vm_compute in E'; discriminate].
  destruct c12_dt_ok as (Hok1 & Hok2 & Hok3).
  exists low, d, i, d', i'. split; [reflexivity|]. split; [exact E|]. split; [exact E'|].
  (* datetimes in g/c, through defragment *)
  destruct (datetime_defragment_file c12_file_calls low d i (hex "67") (hex "63")
              [[d2020; d1903]; [d2020 + 1]] 4713 d' i' El Hwf Hsz Hdt E)
    as (vc & Hdec & _ & _ & Hrd & _ & Hcd & _ & _ & Hcd');
    [vm_compute; reflexivity|discriminate| |exact Hwf'|exact Hsz'|exact E'|].
  { cbn [concat app]. constructor; [exact Hok1|]. constructor; [exact Hok2|]. constructor; [exact Hok3|constructor]. }
  split; [exact Hrd|]. split; [exists vc; repeat split; assumption|].
  (* raw timestamps in g/r, through defragment *)
  destruct (raw_timestamp_defragment_file c12_file_calls low d i (hex "67") (hex "72")
              [[(-2, 9223353590110702099); (3524551547, 12345678900000000000)]; [(0, 2 ^ 64 - 1)]]
              4713 d' i' El Hwf Hsz Hdt E)
    as (vr & Hdecr & _ & _ & _ & Hcdr & _ & _ & Hcdr' & _);
    [vm_compute; reflexivity|discriminate|exact Hwf'|exact Hsz'|exact E'|].
  split; [exists vr; repeat split; assumption|].
  (* property w of channel g/c *)
  destruct (datetime_property_roundtrip_file c12_file_calls low d i (KChan (hex "67") (hex "63")) (hex "77")
              [TPDatetime (hex "77") d2020] (d2020 + 1) El Hwf Hsz Hdt E)
    as (_ & _ & s & f & _ & _ & _ & _ & _ & _ & Hb & Hd & _); [vm_compute; reflexivity|exact Hok3|].
  split; [exists s, f; split; assumption|].
  (* root property t *)
  destruct (datetime_property_roundtrip_file c12_file_calls low d i KRoot (hex "74")
              [] d2020 El Hwf Hsz Hdt E)
    as (_ & _ & s0 & f0 & _ & _ & _ & _ & _ & _ & Hb0 & Hd0 & _); [vm_compute; reflexivity|exact Hok1|].
  split; [exists s0, f0; split; assumption|].
  (* raw property r of channel g/c, through defragment *)
  destruct (raw_timestamp_property_defragment_file c12_file_calls low d i (KChan (hex "67") (hex "63")) (hex "72")
              [] (TPRaw (hex "72") (-2) 9223353590110702099) (-2, 9223353590110702099) 4713 d' i'
              El Hwf Hsz Hdt E)
    as (_ & _ & _ & _ & _ & _ & _ & _ & _ & Hbs & Hbd);
    [vm_compute; reflexivity|reflexivity|exact Hwf'|exact Hsz'|exact E'|].
  split; assumption.
Qed.

End Examples.

Print Assumptions supported_datetime_encodes.
Print Assumptions timestamp_value_roundtrip.
Print Assumptions datetime_channel_roundtrip_file.
Print Assumptions datetime_property_roundtrip_file.
Print Assumptions raw_timestamp_roundtrip_file.
Print Assumptions raw_timestamp_property_roundtrip_file.
Print Assumptions timestamp_channel_empty_file.
Print Assumptions raw_timestamp_defragment_file.
Print Assumptions datetime_defragment_file.
Print Assumptions raw_timestamp_property_defragment_file.
Print Assumptions defrag_channel_preserved.
Print Assumptions read_content_is_content_of_read.
Print Assumptions c12_file_evaluates.
Print Assumptions c12_file_decodes.
Print Assumptions c12_dt_ok.
Print Assumptions c12_file_by_theorem.
