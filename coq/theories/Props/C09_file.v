(* C09 (file level) — a matching index file is transparent, for serialised files.

   [ser_index segs] is the index file that matches [ser_file segs]: the same
   lead-ins with the tag TDSh and the same metadata blocks, raw data removed.
   Reading the metadata from it, with the data file's size known, is the same
   state machine run as reading the data file itself; so the two reads agree. *)
From Coq Require Import List ZArith.
Import ListNotations.
From NpTdms Require Import Base.Bytes Base.Res Model.Tokens Model.TokensWf Model.SegState
     Model.Layout Model.Reader Model.FileSyn Proofs.FileSynProofs.
Local Open Scope Z_scope.

Theorem rd_metadata_ser_index : forall segs w, wf_file segs ->
    rd_metadata (ser_index segs) true (Some (blen (ser_file segs))) w = sm_run segs w.
Proof. exact FileSynProofs.rd_metadata_ser_index. Qed.

Theorem index_transparent : forall segs w, wf_file segs ->
    rd_metadata (ser_index segs) true (Some (blen (ser_file segs))) w =
    rd_metadata (ser_file segs) false (Some (blen (ser_file segs))) w.
Proof. exact FileSynProofs.index_transparent_ser. Qed.

Example c09_file_wf : wf_file ex_file.
Proof. exact ex_file_wf. Qed.

(* the index of the example is shorter than the file and reads to the same run *)
Example c09_file_run :
  rd_metadata (ser_index ex_file) true (Some (blen (ser_file ex_file))) true = sm_run ex_file true /\
  blen (ser_index ex_file) = 153 /\ blen (ser_file ex_file) = 177.
Proof. exact ex_index_run. Qed.

Print Assumptions rd_metadata_ser_index.
Print Assumptions index_transparent.
