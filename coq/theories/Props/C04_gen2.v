(* C04 (companion 2) -- the LAZY INDEX PATH translated from the source on every run
   (harness/gen/gen_pyfuncs_lazyidx.py -> Gen/PyFuncsLazyIdx.v; self-tested against the real code on
   about 1 500 cases embedded as Examples in the generated file) equals the hand model Model/LazyRead.v,
   and index_correct holds of the TRANSLATED TdmsChannel._read_at_index.
   Statements only (proofs: Proofs/GenLazyIdxEquiv.v).

   Translated: reader._array_equal (block loop, chunk_size = 100), _deduplicate_array,
   TdmsReader._build_index, TdmsReader.read_channel_chunk_for_index, TdmsChannel._read_channel_data_chunk_for_index,
   TdmsChannel._read_at_index (negative index, bounds check, cache test, fetch, cache update),
   the validation and receiver size of TdmsChannel._read_channel_data, _trim_channel_chunk's slice,
   the window arithmetic of TdmsReader.read_raw_data_for_channel before its loop over the segments.
   File I/O is a parameter (io_verify / io_next over an abstract file state); here it is instantiated
   by the model's chunk source (w_next: LazyRead.seg_fetch on the views, logging each chunk read).

   Hypotheses that appear below and what they mean:
     seg_ok path s      the segment's object_index entry for the channel points at an object with that
                        path (the reader builds object_index from ordered_objects), and a data object
                        with number_values = 0 has no values in a truncated final chunk either;
     zsum .. < 2^63     the channel's total fits the int64 arrays NumPy stores the index in (the translated
                        code raises OverflowError / wraps where the model, on unbounded integers, does not);
     tbl_ok             _segment_channel_offsets holds no entry for the channel or the entry _build_index
                        computes (an invariant: only _build_index writes it);
     cache_rel          _cached_chunk / _cached_chunk_bounds are the model's cache (both None, or both set). *)
From Coq Require Import List ZArith Bool.
Import ListNotations.
From NpTdms Require Import Base.Bytes Base.Res Base.PySlice Model.Tokens Model.SegState Model.LazyRead
     Gen.PySlice_gen Gen.PyFuncsReader Gen.PyFuncsLazyIdx
     Proofs.LazyIndexProofs Proofs.LazyReadProofs Proofs.LazyTopProofs Proofs.GenReaderLazy Proofs.GenLazyIdxEquiv.
Local Open Scope Z_scope.

(* _array_equal compares block by block and is list equality for every positive block size *)
Theorem array_equal_translated : forall a b chunk_size, 0 < chunk_size ->
    array_equal_gen a b chunk_size = Ok (zlist_eqb a b).
Proof. exact array_equal_eq. Qed.

(* _deduplicate_array (with the default block size 100) returns the VALUE it was given: sharing arrays
   between channels never changes an index *)
Theorem deduplicate_array_translated : forall xs candidates, deduplicate_array_gen xs candidates = Ok xs.
Proof. exact deduplicate_array_eq. Qed.

(* _build_index enters the model's (first_segment, cumulative counts) for the channel *)
Theorem build_index_translated : forall segs tbl path,
    forallb (seg_ok path) segs = true ->
    zsum (seg_nums unit (seg_views segs path)) < 2 ^ 63 ->
    build_index_gen segs tbl path = Ok (aset path (build_index unit (seg_views segs path)) tbl).
Proof. exact build_index_eq. Qed.

Section C04_gen2.
  Variable V : Type.
  Variable segs : list segment.
  Variable path : bytes.
  Variable dat : list (seg_data V).       (* per segment: interleaved?, the values of each chunk *)
  Hypothesis Hlen : length dat = length segs.
  Hypothesis Hok : forallb (seg_ok path) segs = true.
  Hypothesis Hfit : zsum (seg_nums unit (seg_views segs path)) < 2 ^ 63.

  Let svs := lviews V segs path dat.

  (* read_channel_chunk_for_index: the model's chunk and offset, ONE chunk read (the model's), a correct table *)
  Theorem read_channel_chunk_for_index_translated : forall tbl f index chunk off j c,
      tbl_ok segs path tbl ->
      read_chunk_for_index V svs index = Ok (chunk, off, (j, c)) ->
      exists tbl', tbl_ok segs path tbl' /\
        read_channel_chunk_for_index_gen (iolog) (list V) (w_verify) (w_next V svs) (Some segs) tbl f path index
        = Ok ((chunk, off), (tbl', f ++ [(j, c)])).
  Proof. exact (read_channel_chunk_for_index_eq V segs path dat Hlen Hok Hfit). Qed.

  (* _read_at_index: every successful run of the model IS a run of the translated method *)
  Theorem read_at_index_translated : forall st cc cb tbl f i x st' log,
      cache_rel V st cc cb -> tbl_ok segs path tbl ->
      read_at_index V svs st i = Ok (x, st', log) ->
      exists tbl' c' b', tbl_ok segs path tbl' /\ st' = Some (c', b') /\
        read_at_index_gen (iolog) (list V) V (w_verify) (w_next V svs) (fun c => Ok c) (fun c => Ok c)
                          (Some segs) tbl f path (total_values V svs) cc cb i
        = Ok (x, (c', Some b', tbl', f ++ log)).
  Proof. exact (read_at_index_eq V segs path dat Hlen Hok Hfit). Qed.

  (* C04 (iii) on the translated method: channel[i] is NumPy indexing of the full array or IndexError,
     whatever the cache and the index table hold; invariants are kept; a miss reads the one chunk
     that holds the index *)
  Theorem index_correct_translated : forall st cc cb tbl f i,
      wf V svs = true -> cache_inv V svs st -> cache_rel V st cc cb -> tbl_ok segs path tbl ->
      match py_index (full V svs) i with
      | Ok x => exists c' b' tbl' f',
          read_at_index_gen (iolog) (list V) V (w_verify) (w_next V svs) (fun c => Ok c) (fun c => Ok c)
                            (Some segs) tbl f path (total_values V svs) cc cb i
          = Ok (x, (c', Some b', tbl', f')) /\
          cache_inv V svs (Some (c', b')) /\ tbl_ok segs path tbl' /\
          (f' = f \/
           exists j c sv, f' = f ++ [(j, c)] /\ 0 <= j /\ nth_error svs (Z.to_nat j) = Some sv /\
                          sv_chunk sv <> 0 /\ 0 <= c < sv_nchunks sv /\
                          let i' := if i <? 0 then i + total_values V svs else i in
                          chunk_start V (pre V svs j) sv c <= i' < chunk_end V (pre V svs j) sv c)
      | Err _ =>
        read_at_index_gen (iolog) (list V) V (w_verify) (w_next V svs) (fun c => Ok c) (fun c => Ok c)
                          (Some segs) tbl f path (total_values V svs) cc cb i = Err EIndex
      end.
  Proof. exact (index_correct_gen V segs path dat Hlen Hok Hfit). Qed.
End C04_gen2.

(* the bounds check of the translated method is the (also translated) read_at_index_check, for any I/O *)
Theorem read_at_index_bounds_translated :
  forall F C V io_verify io_next convert scale sg tbl (f : F) path n cc cb i e,
    read_at_index_check n i = Err e ->
    read_at_index_gen F C V io_verify io_next convert scale sg tbl f path n cc cb i = Err EIndex.
Proof. exact read_at_index_bounds. Qed.

Theorem trim_channel_chunk_translated : forall V (chunk : list V) skip trim,
    trim_channel_chunk_gen V chunk skip trim = Ok (trim_channel_chunk V chunk skip trim).
Proof. exact trim_channel_chunk_eq. Qed.

(* read_data(offset, length): validation (ValueError for a negative offset or length, before anything is
   read; no data type: empty; index file only: RuntimeError) and the size of the receiver *)
Theorem read_channel_data_validation_translated : forall dt only n offset length,
    read_channel_data_alloc_gen dt only n offset length
    = if offset <? 0 then Err EValue
      else if (match length with Some l => l <? 0 | None => false end) then Err EValue
      else match dt with
           | None => Ok None
           | Some _ =>
             if only then Err ERuntime
             else Ok (Some (Z.max 0 (match length with None => n - offset | Some l => Z.min l (n - offset) end)))
           end.
Proof. exact read_channel_data_alloc_eq. Qed.

(* the model's read_channel_data (about which window_correct is proved) is: the translated validation,
   a receiver of the translated size, then the chunk generator *)
Theorem read_channel_data_is_validated : forall V (zero : V) fi ff rk svs offset length dt,
    read_channel_data V zero fi ff rk svs offset length
    = match read_channel_data_alloc_gen (Some dt) false (total_values V svs) offset length with
      | Err e => Err e
      | Ok None => Err EOther
      | Ok (Some num_values) =>
        do '(chunks, _) <- lz_gen V fi ff svs offset length;
        match rk with
        | RNumpy => recv_numpy V (repeat zero (Z.to_nat num_values)) 0 chunks
        | RList => Ok (concat chunks)
        end
      end.
Proof. exact read_channel_data_validated. Qed.

(* read_raw_data_for_channel: clamping of the length, end index, and the two binary searches
   (side='right' for the first segment, side='left' for the last) *)
Theorem read_window_bounds_translated : forall n first offs offset length,
    read_window_bounds_gen n first offs offset length
    = let max_length_from_offset := n - offset in
      let length := match length with None => max_length_from_offset | Some l => Z.min l max_length_from_offset end in
      let end_index := offset + length in
      Ok (length, end_index, first + searchsorted_right offs offset, first + searchsorted_left offs end_index).
Proof. exact read_window_bounds_eq. Qed.

(* the model's generator lz_gen (window_correct, plan_exact_chunks) runs its segment loop with exactly the
   translated bounds *)
Theorem lz_gen_window_bounds_translated : forall V fi ff (segs : list (segv V)) offset length,
    lz_gen V fi ff segs offset length
    = let '(first_segment, segment_offsets) := build_index V segs in
      match read_window_bounds_gen (total_values V segs) first_segment segment_offsets offset length with
      | Ok (length, end_index, start_segment, end_segment) =>
        lz_loop V fi ff first_segment segment_offsets start_segment end_segment offset length end_index
                (py_slice segs start_segment (end_segment + 1)) start_segment start_segment 0
      | Err e => Err e
      end.
Proof. exact lz_gen_uses_translated_bounds. Qed.

(* ---- the hypotheses are satisfiable on a non-trivial file, and the theorems apply to it ---- *)
Example c04_gen2_hypotheses :
  length ex_dat = length ex_segs /\ forallb (seg_ok ex_path) ex_segs = true /\
  zsum (seg_nums unit (seg_views ex_segs ex_path)) < 2 ^ 63 /\
  wf Z (lviews Z ex_segs ex_path ex_dat) = true /\
  full Z (lviews Z ex_segs ex_path ex_dat) = [1; 2; 3; 4; 5; 6; 7; 8; 9; 10; 11; 12; 13; 14].
Proof. exact ex_hyps. Qed.

Example c04_gen2_build_index : build_index_gen ex_segs [] ex_path = Ok [(ex_path, (0, [6; 6; 14]))].
Proof. exact ex_build_index. Qed.

Example c04_gen2_index_run :
  let g := read_at_index_gen (iolog) (list Z) Z (w_verify) (w_next Z (lviews Z ex_segs ex_path ex_dat))
                             (fun c => Ok c) (fun c => Ok c) (Some ex_segs) in
  g [] [] ex_path 14 None None (-3)
  = Ok (12, ([10; 11; 12], Some (9, 12), [(ex_path, (0, [6; 6; 14]))], [(2, 1)])) /\
  g [(ex_path, (0, [6; 6; 14]))] [(2, 1)] ex_path 14 (Some [10; 11; 12]) (Some (9, 12)) 9
  = Ok (10, ([10; 11; 12], Some (9, 12), [(ex_path, (0, [6; 6; 14]))], [(2, 1)])) /\
  g [] [] ex_path 14 None None 14 = Err EIndex.
Proof. exact ex_index_run. Qed.

(* index_correct_translated applied to the example: channel[-3] = full[-3] = 12 *)
Example c04_gen2_index_applied : exists c' b' tbl' f',
  read_at_index_gen (iolog) (list Z) Z (w_verify) (w_next Z (lviews Z ex_segs ex_path ex_dat))
                    (fun c => Ok c) (fun c => Ok c) (Some ex_segs) [] [] ex_path
                    (total_values Z (lviews Z ex_segs ex_path ex_dat)) None None (-3)
  = Ok (12, (c', Some b', tbl', f')).
Proof. exact ex_index_applied. Qed.

Example c04_gen2_array_equal :
  array_equal_gen (py_range 0 250) (map (fun k => if k =? 200 then -7 else k) (py_range 0 250)) 100 = Ok false /\
  array_equal_gen (py_range 0 250) (py_range 0 250) 100 = Ok true.
Proof. exact ex_array_equal. Qed.

Print Assumptions array_equal_translated.
Print Assumptions deduplicate_array_translated.
Print Assumptions build_index_translated.
Print Assumptions read_channel_chunk_for_index_translated.
Print Assumptions read_at_index_translated.
Print Assumptions index_correct_translated.
Print Assumptions read_at_index_bounds_translated.
Print Assumptions trim_channel_chunk_translated.
Print Assumptions read_window_bounds_translated.
Print Assumptions lz_gen_window_bounds_translated.
Print Assumptions read_channel_data_validation_translated.
Print Assumptions read_channel_data_is_validated.
Print Assumptions c04_gen2_hypotheses.
Print Assumptions c04_gen2_build_index.
Print Assumptions c04_gen2_index_run.
Print Assumptions c04_gen2_index_applied.
Print Assumptions c04_gen2_array_equal.
