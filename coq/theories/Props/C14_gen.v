(* C14 (companion) -- the dtype logic TRANSLATED from the source equals the model, and Props/C14.v holds of the
   translated functions.  Statements only; proofs in Proofs/GenDtypeEquiv.v.

   Gen/PyFuncsDtype.v is regenerated from nptdms/scaling.py and nptdms/tdms.py by harness/gen/gen_pyfuncs_dtype.py
   on every run (fail-closed; self-test Gen/PyFuncsDtypeTest.v: about 3 600 results of the real code -- real
   MultiScaling objects of every scaling class, real TdmsFile / TdmsChannel objects of every TDMS type, the read
   methods on every shape of raw data -- embedded as Examples and checked by vm_compute in this build).
   Translated: _double_precision_dtype, MultiScaling._compute_scale_dtype / get_dtype, TdmsChannel._raw_data_dtype /
   dtype / __len__ / _scale_data / data / read_data, ChannelDataChunk._data; TdmsChannel._read_slice comes from
   Gen/PySlice_gen.v (gen_pyfuncs_slice.py), whose PEmpty is exactly np.empty((0,), dtype=self.dtype).
   np.result_type is the reflected table Gen/NumpyPromote.v (np_result_type, compared with the installed NumPy
   on all pairs by the self-test).

   Vocabulary: forget (Proofs/GenScaleEvalEquiv.v) maps a scaling object to the model's scaling; kind_of_type the
   TDMS type class of the channel (its enum value, None = no type) to the model's rawkind; scalers_of the
   scaler_data_types dictionary to the model's association list; chan_of puts them together.  dt_lift maps the
   model's error kinds to exception classes (EFuel stays EFuel).  The equalities hold for ALL definitions, cyclic
   ones included, whenever the model's bounded recursion does not end in EFuel (it never does for an acyclic
   definition); equality includes the exception class.
   Not covered: a `None` entry in the list of scalings (unsupported scale type) has no counterpart in the model's
   graph (the translation answers float64 for it, as the code does; self-tested); mixed non-numeric operands of
   np.result_type are outside both the model (EUnmodelled) and the primitive (Err EOther). *)
From Coq Require Import String.
From Coq Require Import ZArith List Bool Lia PrimFloat.
Import ListNotations.
From NpTdms Require Import Base.Res Base.PySlice Gen.NumpyPromote Gen.PyFuncsScaling Gen.PyFuncsScaleEval
     Gen.PyFuncsDtype Gen.PyFuncsDtypeTest Gen.PySlice_gen.
From NpTdms Require Import Proofs.GenScalingEquiv Proofs.GenScaleEvalEquiv Proofs.GenDtypeEquiv.
From NpTdms Require Model.ScaleGraph.
From NpTdms Require Import Model.ScaleDtype.
Local Open Scope Z_scope.

(* ---- 1. scaling.py ---------------------------------------------------------------------------------------- *)

Theorem double_precision_dtype_translated : forall x,
  double_precision_xdt_gen x = Ok (double_precision_dtype x).
Proof. exact double_precision_eq. Qed.

(* np.result_type as the translation reads it = the model's xresult_type (the reflected promotion table) *)
Theorem result_type_translated : forall a b, np_result_type a b = dt_lift (xresult_type a b).
Proof. exact result_type_eq. Qed.

(* _compute_scale_dtype with n nested calls allowed = declared_src with fuel m <= n, for every input source *)
Theorem compute_scale_dtype_translated : forall objs k ts osd,
  Forall id_ok objs ->
  match osd with Some sd => scalers_ok sd | None => Forall (fun o => is_DaqMxScalerScaling o = false) objs end ->
  forall m s n, src_norm s ->
  declared_src true m (map forget objs) k ts (scalers_of osd) s <> SG.Err SG.EFuel -> (m <= n)%nat ->
  compute_scale_dtype_fuel n (map Some objs) (int_of_src s) (inl (raw_data_dtype true k ts)) osd
  = dt_lift (declared_src true m (map forget objs) k ts (scalers_of osd) s).
Proof. exact compute_fuel_eq. Qed.

(* the raw data's type given as a TDMS type class instead of a dtype: its nptype (None if it has none) *)
Theorem compute_scale_dtype_raw_type_translated : forall objs osd rec t,
  compute_scale_dtype_gen rec (map Some objs) 4294967295 (inr t) osd = Ok (tds_nptype t).
Proof. exact compute_raw_type. Qed.

Theorem get_dtype_translated : forall objs k ts osd,
  Forall id_ok objs ->
  match osd with Some sd => scalers_ok sd | None => Forall (fun o => is_DaqMxScalerScaling o = false) objs end ->
  Z.of_nat (length objs) <= 4294967295 ->
  declared true (map forget objs) k ts (scalers_of osd) <> SG.Err SG.EFuel ->
  MultiScaling_get_dtype_top (map Some objs) (inl (raw_data_dtype true k ts)) osd
  = dt_lift (declared true (map forget objs) k ts (scalers_of osd)).
Proof. exact get_dtype_eq. Qed.

(* ---- 2. tdms.py: dtype, len ------------------------------------------------------------------------------- *)

Theorem raw_data_dtype_translated : forall t ts,
  TdmsChannel_raw_data_dtype_gen t ts = Ok (raw_data_dtype true (kind_of_type t) ts).
Proof. exact raw_data_dtype_eq. Qed.

Theorem channel_dtype_translated : forall sc t ts osd,
  chan_ok sc osd -> chan_dtype true (chan_of sc t ts osd) <> SG.Err SG.EFuel ->
  TdmsChannel_dtype_gen (option_map (map Some) sc) t ts osd = dt_lift (chan_dtype true (chan_of sc t ts osd)).
Proof. exact channel_dtype_eq. Qed.

(* len(channel) is the stored number of values (what that number is: C01 / C06) *)
Theorem channel_len_translated : forall n, TdmsChannel_len_gen n = Ok n.
Proof. exact channel_len_eq. Qed.

(* ---- 3. tdms.py: what the read methods hand back carries read_dtype ---------------------------------------- *)

Theorem data_translated : forall sc t ts osd n raw,
  let c := chan_of sc t ts osd in
  chan_ok sc osd -> chan_dtype true c <> SG.Err SG.EFuel -> rawread_ok c raw -> (raw = None -> n <= 0) ->
  then_dtype c (TdmsChannel_data_gen n raw (option_map (map Some) sc) t ts osd) = dt_lift (read_dtype true c OpData).
Proof. exact data_dtype_eq. Qed.

Theorem read_data_translated : forall sc t ts osd raw rcd srd offset length got,
  let c := chan_of sc t ts osd in
  chan_ok sc osd -> chan_dtype true c <> SG.Err SG.EFuel ->
  match raw with
  | Some ar => rawread_ok c (Some ar) /\ exists ar', srd ar offset length = Ok ar' /\ absraw_of_kind (ckind c) ar'
  | None => rcd offset length = Ok got /\ rawread_ok c got
  end ->
  then_dtype c (TdmsChannel_read_data_gen raw (option_map (map Some) sc) t ts osd rcd srd offset length true)
  = dt_lift (read_dtype true c OpReadData).
Proof. exact read_data_dtype_eq. Qed.

Theorem read_data_unscaled_empty_translated : forall sc t ts osd rcd srd offset length,
  rcd offset length = Ok None ->
  TdmsChannel_read_data_gen None sc t ts osd rcd srd offset length false
  = Ok (PyEmpty (raw_data_dtype true (kind_of_type t) ts)).
Proof. exact read_data_unscaled_empty. Qed.

Theorem chunk_data_translated : forall sc t ts osd ar (has : bool),
  let c := chan_of sc t ts osd in
  chan_ok sc osd -> chan_dtype true c <> SG.Err SG.EFuel ->
  (if has then has_receiver c = true /\ absraw_of_kind (ckind c) ar
   else ar_has_data ar = false /\ ar_scalers ar = None) ->
  then_dtype c (ChannelDataChunk_data_gen ar (option_map (map Some) sc) t ts osd)
  = dt_lift (read_dtype true c (OpChunk has)).
Proof. exact chunk_data_dtype_eq. Qed.

Theorem read_slice_translated : forall c len start stop step p,
  read_slice_gen len start stop step = Ok p -> plan_dtype c p = read_dtype true c (plan_op p).
Proof. exact read_slice_dtype_eq. Qed.

(* ---- 4. Props/C14.v on the translated functions ------------------------------------------------------------ *)

Theorem dtype_agrees_translated : forall objs k ts osd d,
  Forall id_ok objs -> Z.of_nat (length objs) <= 4294967295 ->
  match osd with Some sd => scalers_ok sd | None => Forall (fun o => is_DaqMxScalerScaling o = false) objs end ->
  actual true (map forget objs) k ts (scalers_of osd) = SG.Ok d -> d <> XTimedelta64 ->
  MultiScaling_get_dtype_top (map Some objs) (inl (raw_data_dtype true k ts)) osd = Ok d.
Proof. exact dtype_agrees_gen. Qed.

Theorem reads_have_channel_dtype_translated : forall sc t ts osd op d,
  let c := chan_of sc t ts osd in
  chan_ok sc osd -> read_dtype true c op = SG.Ok d -> d <> XTimedelta64 ->
  TdmsChannel_dtype_gen (option_map (map Some) sc) t ts osd = Ok d.
Proof. exact reads_have_channel_dtype_gen. Qed.

(* empty results and non-empty ones: whatever two translated read methods hand back carries one dtype *)
Theorem empty_results_same_dtype_translated : forall sc t ts osd n raw ar (has : bool) d1 d2,
  let c := chan_of sc t ts osd in
  chan_ok sc osd -> chan_dtype true c <> SG.Err SG.EFuel -> rawread_ok c raw -> (raw = None -> n <= 0) ->
  (if has then has_receiver c = true /\ absraw_of_kind (ckind c) ar
   else ar_has_data ar = false /\ ar_scalers ar = None) ->
  then_dtype c (TdmsChannel_data_gen n raw (option_map (map Some) sc) t ts osd) = Ok d1 ->
  then_dtype c (ChannelDataChunk_data_gen ar (option_map (map Some) sc) t ts osd) = Ok d2 ->
  d1 <> XTimedelta64 -> d2 <> XTimedelta64 -> d1 = d2.
Proof. exact empty_results_same_dtype_gen. Qed.

(* the array the TRANSLATED MultiScaling.scale returns has the dtype the TRANSLATED get_dtype answers *)
Theorem scaled_array_has_declared_dtype_translated : forall sens objs raw ts osd fuel v,
  Forall id_ok objs -> Forall structural objs -> SG.wf_graph (map forget objs) ->
  Z.of_nat (length objs) <= 4294967295 -> (length objs <= fuel)%nat ->
  match osd with Some sd => scalers_ok sd | None => Forall (fun o => is_DaqMxScalerScaling o = false) objs end ->
  scalers_of osd = scaler_dtypes raw ->
  MultiScaling_scale_fuel sens fuel (map Some objs) raw = Ok v ->
  MultiScaling_get_dtype_top (map Some objs) (inl (raw_data_dtype true (kind_of_raw raw) ts)) osd
  = Ok (XNum (SG.dtype_of v)).
Proof. exact scaled_array_has_declared_dtype. Qed.

(* ---- non-vacuity ------------------------------------------------------------------------------------------------ *)

(* Linear over the raw data, a pass-through of it, Add of raw + raw, Subtract, Add: the graph of Props/C14.v *)
Definition ex_objs : list scaling_py :=
  [PyLinearScaling 1 2 4294967295; PyNoOpScaling 0; PyAddScaling 4294967295 4294967295;
   PySubtractScaling 2 4294967295; PyAddScaling 1 3]%float.

Example ex_forget : map forget ex_objs
  = [SG.Linear 2 1 SG.Raw; SG.NoOp (SG.Idx 0); SG.Add SG.Raw SG.Raw; SG.Subtract (SG.Idx 2) SG.Raw;
     SG.Add (SG.Idx 1) (SG.Idx 3)]%float.
Proof. reflexivity. Qed.

(* a complex64 channel (TDMS type 0x8000c): the translated dtype is complex128, and it is the model's *)
Example ex_channel_dtype :
  TdmsChannel_dtype_gen (Some (map Some ex_objs)) (Some 524300) false None = Ok (XNum Complex128) /\
  chan_ok (Some ex_objs) None /\
  chan_dtype true (chan_of (Some ex_objs) (Some 524300) false None) = SG.Ok (XNum Complex128).
Proof.
  split; [vm_compute; reflexivity|]. split; [|vm_compute; reflexivity].
  cbn. repeat split; try (repeat constructor; fail). vm_compute. discriminate.
Qed.

(* DAQmx: two scalers int16 + uint16 -> int32 *)
Example ex_daqmx :
  let objs := [PyDaqMxScalerScaling 0; PyDaqMxScalerScaling 1; PyAddScaling 0 1] in
  let osd := Some [(0, 2); (1, 6)] in
  TdmsChannel_dtype_gen (Some (map Some objs)) (Some 4294967295) false osd = Ok (XNum Int32) /\
  chan_ok (Some objs) osd /\ scalers_of osd = [(0%nat, Int16); (1%nat, UInt16)] /\
  kind_of_type (Some 4294967295) = RDaqmx.
Proof.
  cbv zeta. split; [vm_compute; reflexivity|]. split; [|split; reflexivity].
  cbn. split; [repeat constructor; cbn; lia|]. split; [lia|].
  repeat constructor; cbn; try lia; eexists; reflexivity.
Qed.

(* the hypotheses of the read theorems: an eager int16 channel with three values / an empty chunk *)
Example ex_reads :
  let c := chan_of (Some ex_objs) (Some 2) false None in
  rawread_ok c (Some {| ar_has_data := true; ar_scalers := None |}) /\
  then_dtype c (TdmsChannel_data_gen 3 (Some {| ar_has_data := true; ar_scalers := None |})
                  (Some (map Some ex_objs)) (Some 2) false None) = Ok (XNum Float64) /\
  then_dtype c (ChannelDataChunk_data_gen {| ar_has_data := false; ar_scalers := None |}
                  (Some (map Some ex_objs)) (Some 2) false None) = Ok (XNum Float64).
Proof. cbv zeta. split; [split; [reflexivity|split; reflexivity]|]. split; vm_compute; reflexivity. Qed.

(* a string channel without scaling read lazily outside its data: an object array of length 0 *)
Example ex_string_empty :
  TdmsChannel_read_data_gen None None (Some 32) false None (fun _ _ => Ok None) (fun r _ _ => Ok r) 7 (Some 2) true
  = Ok (PyEmpty XObject).
Proof. reflexivity. Qed.

Print Assumptions double_precision_dtype_translated.
Print Assumptions result_type_translated.
Print Assumptions compute_scale_dtype_translated.
Print Assumptions compute_scale_dtype_raw_type_translated.
Print Assumptions get_dtype_translated.
Print Assumptions raw_data_dtype_translated.
Print Assumptions channel_dtype_translated.
Print Assumptions channel_len_translated.
Print Assumptions data_translated.
Print Assumptions read_data_translated.
Print Assumptions read_data_unscaled_empty_translated.
Print Assumptions chunk_data_translated.
Print Assumptions read_slice_translated.
Print Assumptions dtype_agrees_translated.
Print Assumptions reads_have_channel_dtype_translated.
Print Assumptions empty_results_same_dtype_translated.
Print Assumptions scaled_array_has_declared_dtype_translated.
