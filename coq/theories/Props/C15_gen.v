(* C15 (companion) — the byte order of a segment does not change its meaning, stated on the decoding functions
   TRANSLATED from nptdms/types.py and tdms_segment.py on every run (harness/gen/gen_pyfuncs_decode.py ->
   Gen/PyFuncsDecode.v): the big-endian and the little-endian encoding of the same content decode to the same
   Python-level values — property values (struct formats incl. the '<Qq' / '>qQ' field order of timestamps),
   arrays of every sized type (NumPy dtype in the file's byte order; complex per component; timestamp field order),
   strings, contiguous chunks, interleaved rows.  Statements only; proofs: Proofs/GenDecodeEquiv.v,
   Proofs/GenDecodeTransport.v.  [value_endian_irrelevant] etc. of Props/C15.v are about the hand model
   (canon_value); these are about what the source says now. *)
From Coq Require Import String Ascii.
From Coq Require Import List ZArith.
Import ListNotations.
From NpTdms Require Import Base.Bytes Base.Res Model.Tokens Model.TokensWf Model.SegState Model.Layout Model.Reader
     Gen.PyFuncsDecode Proofs.LayoutProofs Proofs.GenDecodeEquiv Proofs.GenDecodeTransport.
Local Open Scope Z_scope.

(* <class>.read of a value stored in byte order e, read with byte order e: the value, whatever e is
   (restates value_endian_irrelevant on the translated struct / timestamp / string readers) *)
Theorem tds_read_endian_irrelevant : forall e ty v rest,
    readable_prop_type ty = true -> prop_val_ok ty v = true -> (ty = T_STRING -> utf8_valid v = true) ->
    mapr (fun p => (pyval_toks (fst p), snd p)) (tds_read_gen ty (ser_prop_value e ty v ++ rest) e)
    = Ok (obs_prop_value ty v, rest).
Proof. exact tds_read_roundtrip. Qed.

Theorem read_property_endian_irrelevant_translated : forall e e' p rest,
    wf_prop p = true -> utf8_valid (p_name p) = true -> (p_type p = T_STRING -> utf8_valid (p_val p) = true) ->
    mapr (fun x => (fst (fst x), pyval_toks (snd (fst x)), snd x)) (read_property_gen (ser_prop e p ++ rest) e)
    = mapr (fun x => (fst (fst x), pyval_toks (snd (fst x)), snd x)) (read_property_gen (ser_prop e' p ++ rest) e').
Proof. exact read_property_endian_irrelevant. Qed.

(* <class>.from_bytes on the bytes of [vs] stored in byte order e: an array holding [vs], whatever e is *)
Theorem from_bytes_endian_irrelevant : forall e ty sz vs,
    tds_size ty = Some (Some sz) -> Forall (fun v => blen v = sz) vs ->
    exists a, tds_from_bytes_gen ty (mkArr U1 (enc_values e ty vs)) e = Ok a /\ arr_values a = Some vs.
Proof. exact from_bytes_roundtrip. Qed.

(* TdmsSegmentObject.read_values (restates read_values_endian_irrelevant) *)
Theorem read_values_endian_irrelevant_translated : forall e e' o n vs rest,
    vals_ok n o vs -> decode_neutral o vs ->
    mapr (fun p => (pydata_values (fst p), snd p)) (segobj_read_values_gen o (enc_obj e o vs ++ rest) n e)
    = mapr (fun p => (pydata_values (fst p), snd p)) (segobj_read_values_gen o (enc_obj e' o vs ++ rest) n e').
Proof. exact segobj_read_values_endian_irrelevant. Qed.

(* ContiguousDataReader._read_data_chunk (restates contig_chunk_endian_irrelevant) *)
Theorem contig_chunk_endian_irrelevant_translated : forall e e' ci nc fin ovs rest,
    Forall (fun ov => vals_ok (chunk_nvals (fst ov) ci nc fin) (fst ov) (snd ov)) ovs ->
    Forall (fun ov => decode_neutral (fst ov) (snd ov)) ovs ->
    NoDup (map (fun ov => so_path (fst ov)) ovs) ->
    mapr (fun p => (rawchunk_chunk (fst p), snd p))
         (contig_read_data_chunk_gen nc fin e (enc_chunk e ovs ++ rest) (map fst ovs) ci)
    = mapr (fun p => (rawchunk_chunk (fst p), snd p))
           (contig_read_data_chunk_gen nc fin e' (enc_chunk e' ovs ++ rest) (map fst ovs) ci).
Proof. exact contig_read_data_chunk_endian_irrelevant. Qed.

(* InterleavedDataReader.read_data_chunks (restates interleaved_endian_irrelevant) *)
Theorem interleaved_endian_irrelevant_translated : forall e e' objs nchunks nv rows rest,
    objs <> [] ->
    Forall (fun o => so_nvals o = nv) objs ->
    Forall (fun o => sized o <> None) objs ->
    NoDup (map so_path objs) ->
    Forall (row_ok objs) rows ->
    nv * nchunks = Z.of_nat (length rows) ->
    mapr (fun p => (chunks_abs (fst p), snd p)) (interleaved_read_data_chunks_gen e (enc_rows e objs rows ++ rest) objs nchunks)
    = mapr (fun p => (chunks_abs (fst p), snd p)) (interleaved_read_data_chunks_gen e' (enc_rows e' objs rows ++ rest) objs nchunks).
Proof. exact interleaved_read_data_chunks_endian_irrelevant. Qed.

Section Examples.
Local Open Scope string_scope.

(* the same timestamp (seconds -3, fractions 7), the same complex64 pair and the same int16 in both byte orders:
   different bytes, different dtypes, the same values *)
Example c15_gen_example :
  ser_prop_value BE T_TIME (hex "0700000000000000fdffffffffffffff") = hex "fffffffffffffffd0000000000000007" /\
  tds_read_gen T_TIME (hex "fffffffffffffffd0000000000000007") BE = Ok (PVts (mkPyTs (-3) 7), []) /\
  tds_read_gen T_TIME (hex "0700000000000000fdffffffffffffff") LE = Ok (PVts (mkPyTs (-3) 7), []) /\
  tds_from_bytes_gen T_C64 (mkArr U1 (hex "0403020108070605")) BE = Ok (mkArr (DNum "c" 8 BE) (hex "0403020108070605")) /\
  arr_values (mkArr (DNum "c" 8 BE) (hex "0403020108070605")) = Some [hex "0102030405060708"] /\
  tds_from_bytes_gen T_C64 (mkArr U1 (hex "0102030405060708")) LE = Ok (mkArr (DNum "c" 8 LE) (hex "0102030405060708")) /\
  arr_values (mkArr (DNum "c" 8 LE) (hex "0102030405060708")) = Some [hex "0102030405060708"] /\
  tds_from_bytes_gen T_TIME (mkArr U1 (hex "fffffffffffffffd0000000000000007")) BE
  = Ok (mkArr (ts_dtype BE) (hex "fffffffffffffffd0000000000000007")) /\
  arr_values (mkArr (ts_dtype BE) (hex "fffffffffffffffd0000000000000007")) = Some [hex "0700000000000000fdffffffffffffff"].
Proof. vm_compute. repeat split. Qed.

(* the strings example of Props/C15.v through the translated reader *)
Example c15_gen_strings_example :
  let o := mkSobj (hex "2f27") true 3 0 (Some T_STRING) None in
  let ss := [hex "616263"; []; hex "c3a9"] in
  segobj_read_values_gen o (enc_strings BE ss ++ hex "77")%list 3 BE = Ok (DStrs ss, hex "77") /\
  segobj_read_values_gen o (enc_strings LE ss ++ hex "77")%list 3 LE = Ok (DStrs ss, hex "77").
Proof. vm_compute. repeat split. Qed.
End Examples.

Print Assumptions tds_read_endian_irrelevant.
Print Assumptions read_property_endian_irrelevant_translated.
Print Assumptions from_bytes_endian_irrelevant.
Print Assumptions read_values_endian_irrelevant_translated.
Print Assumptions contig_chunk_endian_irrelevant_translated.
Print Assumptions interleaved_endian_irrelevant_translated.
Print Assumptions c15_gen_example.
Print Assumptions c15_gen_strings_example.
