(* C08 - TdmsWriter emits structurally valid segments and a faithful index file.
   Statements only; proofs live in Proofs/WriterProofs.v, StrictParseProofs.v,
   StrictClauses.v, WriterClauses.v.

   Model/Writer.v is the writer with fixes D6 and D7 applied; Model/StrictParse.v
   is the independent strict parser; the clause predicates are defined in
   Proofs/StrictClauses.v:
     leadin_consistent s        tag TDSm, version 4712/4713, raw_data_offset = length of the
                                serialised metadata, next_segment_offset = metadata + raw data
     indexes_consistent s       every raw data index: dimension 1, count = number of values,
                                length field 28 and total = 4n + sum(len) for strings,
                                length field 20 and values of the type's size otherwise
     raw_len_equals_declared s  raw data length = what declared types and counts imply
     no_duplicate_paths s
     first_segment_declares_root, groups_declared_before_channels
   and strict_parse additionally guarantees that the metadata parses to exactly
   raw_data_offset bytes and re-serialises to the same bytes (every length field
   inside it equals the bytes that follow). *)
From Coq Require Import List ZArith.
From Coq Require Import Init.Byte.
Import ListNotations.
From NpTdms Require Import Base.Bytes Base.Res Model.Tokens Model.ByteStr Model.StrictParse
  Model.Writer Proofs.StrictClauses Proofs.WriterClauses.
Local Open Scope Z_scope.

(* all accepted call sequences, any number of writer sessions (append mode) *)
Theorem writer_structurally_valid : forall sessions data index,
  wf_file sessions = true ->
  wr_file sessions = Ok (data, index) ->
  exists segs,
    strict_parse data = Some segs /\
    Forall segment_consistent segs /\
    first_segment_declares_root segs /\
    groups_declared_before_channels segs /\
    data = flat_map ser_segment segs /\
    index = flat_map ser_index_segment segs /\
    strip_raw_and_retag data = Some index.
Proof. exact writer_structurally_valid_lemma. Qed.

(* one `with TdmsWriter(...)` block *)
Theorem writer_structurally_valid_session : forall v calls data index,
  wf_file [(v, calls)] = true ->
  wr_session v calls = Ok (data, index) ->
  exists segs,
    strict_parse data = Some segs /\
    Forall segment_consistent segs /\
    first_segment_declares_root segs /\
    groups_declared_before_channels segs /\
    strip_raw_and_retag data = Some index.
Proof. exact writer_structurally_valid_session_lemma. Qed.

(* The same statement is FALSE of the unchanged code (defect D6): one string
   channel is a well-formed call whose output the strict parser rejects. *)
Theorem writer_structurally_valid_refuted :
  wf_file [(4712, d6_witness)] = true /\
  exists data index,
    wr_session_asis 4712 d6_witness = Ok (data, index) /\ strict_parse data = None.
Proof. exact writer_asis_refuted. Qed.

(* Non-vacuity: a two-session file (string channel, int16 channel, a group
   given after its channel, a channel whose group is never given) is
   well-formed, is written, and the conclusion's witness has three segments. *)
Definition c08_example : list (Z * list (list wobj)) :=
  [(4713, [[WChan [x67] [x73] T_STRING [[x61; x62]; []; [xc3; xa9]] [mkProp [x70] 3 [x05; x00; x00; x00]];
            WGroup [x67] []];
           [WChan [x68] [x63] 2 [[x01; x00]; [x2c; x01]] []]]);
   (4713, [[WRoot [mkProp [x74] T_STRING [x78]]; WChan [x67] [x73] T_STRING [[x7a]] []]])].

Example c08_example_wf : wf_file c08_example = true.
Proof. vm_compute. reflexivity. Qed.

Example c08_example_written :
  exists data index segs,
    wr_file c08_example = Ok (data, index) /\ strict_parse data = Some segs /\
    length segs = 3%nat /\ strip_raw_and_retag data = Some index.
Proof.
  destruct (wr_file c08_example) as [[d i]|e] eqn:E; [|vm_compute in E; discriminate].
  destruct (writer_structurally_valid _ _ _ c08_example_wf E) as [segs [Hp [_ [_ [_ [Hd [_ Hs]]]]]]].
  exists d, i, segs. repeat split; try assumption.
  assert (Hv : Some segs = strict_parse d) by (symmetry; exact Hp).
  assert (Hd' : Ok (d, i) = wr_file c08_example) by (symmetry; exact E).
  vm_compute in Hd'. injection Hd' as -> _. vm_compute in Hv. injection Hv as ->. reflexivity.
Qed.

Print Assumptions writer_structurally_valid.
Print Assumptions writer_structurally_valid_session.
Print Assumptions writer_structurally_valid_refuted.
Print Assumptions c08_example_written.
