(* C04 (companion) — the SEGMENT-LEVEL generator of the lazy per-channel read ON BYTES, TRANSLATED from the source on every run
   (harness/gen/gen_pyfuncs_lazyseg.py -> Gen/PyFuncsLazySeg.v:
     nptdms/tdms_segment.py  TdmsSegment._read_channel_data_chunks (reader dispatch through the translated _get_data_reader,
                             file.tell(), the per-chunk reads through the reader INTERLEAVED with the re-seek to
                             initial_position + (i + 1) * chunk_size after every yielded chunk) and
                             TdmsSegment.read_raw_data_for_channel (the whole function, on a positioned file)
     nptdms/base_segment.py  BaseDataReader.read_channel_data_chunks (the generator, INLINED into the consumer loop for the
                             reader classes that inherit it -- REFLECTED: ContiguousDataReader, DaqmxDataReader --, while
                             InterleavedDataReader's own method is an ordinary function returning a list) and
                             BaseDataReader._read_channel_data_chunk as inherited by DaqmxDataReader).
   Statements only; proofs: Proofs/GenLazySegEquiv.v.  This is the part Props/C04_gen3.v lists as missing.

   WHAT IS PROVED.
   * which variant and which per-chunk reader run is the segment's layout (Model/Layout.v seg_layout);
   * read_raw_data_for_channel = the position arithmetic of Props/C04_gen3.v segment_channel_window_translated around the
     translated _read_channel_data_chunks (the empty chunk without kTocRawData; data_position + chunk_size * chunk_offset);
   * CONTIGUOUS segments: the request [chunk_offset, stop) yields, for every chunk index ci in range(chunk_offset, stop),
     the values the sequential decoder (Proofs/GenDecodeEquiv.v seq_channel_chunk over Model/Layout.v read_values) reads for
     the channel when the chunk starts at  data_position + chunk_size * ci  -- i.e. Model/LazyRead.v seg_fetch's
     `mapM (chunk_at sv) (zrange chunk_offset stop)` with chunk ci of the view computed POSITIONALLY ([chunk_view]) --, and
     leaves the file at the start of the chunk after the last one read; hypothesis: the declared sizes are the real
     sizes in the chunks read ([sizes_real], as in Props/C01_gen3.v);
   * INTERLEAVED segments: ONE chunk holding the channel's column of Model/Layout.v read_interleaved for stop - chunk_offset
     chunks read at data_position + chunk_size * chunk_offset (seg_fetch's `[concat cs]` shape), and the file is left at
     initial_position + chunk_size (ONE re-seek: the loop body runs once), not after the bytes read.

   PARTIAL -- what is missing for "equal to seg_fetch on the view Model/LazyBytes.v segv_of computes":
   (1) [chunk_view .. (data_position + chunk_size * ci) ci] = the ci-th entry of sv_vals (segv_of data path s), i.e. that
       decoding the segment's chunks sequentially (read_segment, as segv_of does) reaches chunk ci exactly at
       data_position + chunk_size * ci and that the path is listed once (segv_of takes the LAST listing of a path in a chunk
       dictionary, the seek-over walk the FIRST: finding F1 of DESIGN 13.6); both hold for serialised well-formed files
       (Proofs/LazyEager*.v has the corresponding facts for lz_read_bytes) but the composition is not done;
   (2) the interleaved column for a request that does not start at chunk 0 against split_chunks of the whole column;
   (3) DAQmx segments: the loop is translated and self-tested (scaler dictionaries, positions) and
       [daqmx_read_channel_data_chunk_translated] gives the per-chunk reader, but no loop theorem is stated. *)
From Coq Require Import String Ascii.
From Coq Require Import List ZArith.
Import ListNotations.
From NpTdms Require Import Base.Bytes Base.Res Base.PySlice Model.Tokens Model.SegState Model.Layout Model.Reader
     Gen.PyFuncsReader Gen.PyFuncsDecode Gen.PyFuncsDaqmxRead Gen.PyFuncsDaqmxLoop Gen.PyFuncsEagerLoop Gen.PyFuncsLazySeg
     Proofs.GenReaderEquiv Proofs.GenDecodeEquiv Proofs.GenDecodeRecv Proofs.GenDaqmxEquiv Proofs.GenDaqmxLoopEquiv
     Proofs.GenEagerEquiv Proofs.GenLazySegEquiv.
Local Open Scope Z_scope.

(* the reader class decides: a list (interleaved) or BaseDataReader's lazily running generator *)
Theorem segment_read_channel_data_chunks_dispatch_translated : forall sg f objs path co stop cs,
    segment_read_channel_data_chunks_gen sg f objs path co stop cs
    = do lay <- seg_layout sg;
      match lay with
      | LInterleaved => segment_read_channel_data_chunks_list_gen sg f objs path co stop cs
      | _ => segment_read_channel_data_chunks_lazy_gen sg f objs path co stop cs
      end.
Proof. exact segment_read_channel_data_chunks_dispatch. Qed.

(* BaseDataReader._read_channel_data_chunk of a DaqmxDataReader: the whole chunk, then the channel's entry *)
Theorem daqmx_read_channel_data_chunk_translated : forall nc fin e cur objs ci path,
    daqmx_read_channel_data_chunk_gen nc fin e cur objs ci path
    = do '(rc, f) <- daqmx_read_data_chunk_gen e cur objs ci; Ok (channel_of_chunk rc path, f).
Proof. exact daqmx_read_channel_data_chunk_eq. Qed.

(* read_raw_data_for_channel: where the file stands when the chunk loop starts, the chunk range, the empty chunk *)
Theorem segment_read_raw_data_for_channel_translated : forall sg f path co nc,
    0 <= sg_data sg ->
    segment_read_raw_data_for_channel_gen sg f path co nc
    = do cs <- get_chunk_size_gen sg;
      let pos := if co >? 0 then sg_data sg + cs * co else sg_data sg in
      if pos <? 0 then Err EValue
      else
        do '(l, f') <- segment_read_channel_data_chunks_gen sg (mkPf (pf_data f) pos) (data_objs (sg_objs sg)) path co
                                                            (match nc with None => sg_nchunks sg | Some n => n + co end) cs;
        Ok (empty_channel_chunks (sg_toc sg) ++ l, f').
Proof. exact segment_read_raw_data_for_channel_eq. Qed.

(* the loop with its re-seeks on a contiguous segment: chunk k of the request is read at pos + k * chunk_size *)
Theorem contig_read_channel_data_chunks_translated : forall sg objs path data pos co stop cs,
    seg_layout sg = Ok LContig -> 0 <= pos -> 0 <= cs -> Forall obj_ok objs ->
    all_sizes_real (toc_endian (sg_toc sg)) objs (sg_nchunks sg) (sg_final sg) path data pos cs (py_range co stop) 0 ->
    mapr (fun p => (chunks_values (fst p), pf_data (snd p), pf_pos (snd p)))
         (segment_read_channel_data_chunks_gen sg (mkPf data pos) objs path co stop cs)
    = mapr (fun vss => (Some vss, data, match py_range co stop with [] => pos | _ => pos + zlen (py_range co stop) * cs end))
           (pos_chunks (toc_endian (sg_toc sg)) objs (sg_nchunks sg) (sg_final sg) path data pos cs (py_range co stop) 0).
Proof. exact contig_read_channel_data_chunks_eq. Qed.

(* THE SEGMENT GENERATOR on a contiguous segment (see the header for what is missing towards seg_fetch on segv_of) *)
Theorem contig_read_raw_data_for_channel_translated_partial : forall sg data p0 path co nc cs,
    seg_layout sg = Ok LContig -> get_chunk_size_gen sg = Ok cs ->
    0 <= sg_data sg -> 0 <= cs -> 0 <= co ->
    Forall obj_ok (data_objs (sg_objs sg)) ->
    let e := toc_endian (sg_toc sg) in
    let objs := data_objs (sg_objs sg) in
    let stop := match nc with None => sg_nchunks sg | Some n => n + co end in
    (forall ci, co <= ci < stop ->
                Forall (fun o => 0 <= chunk_nvals o ci (sg_nchunks sg) (sg_final sg)) objs /\
                sizes_real e objs ci (sg_nchunks sg) (sg_final sg) path (drop (sg_data sg + cs * ci) data)) ->
    mapr (fun p => (chunks_values (fst p), pf_data (snd p), pf_pos (snd p)))
         (segment_read_raw_data_for_channel_gen sg (mkPf data p0) path co nc)
    = mapr (fun vss => (Some ((if toc_has (sg_toc sg) TOC_RAW then [] else [[]]) ++ vss), data,
                        if stop <=? co then sg_data sg + cs * co else sg_data sg + cs * stop))
           (mapM (fun ci => chunk_view e objs (sg_nchunks sg) (sg_final sg) path data (sg_data sg + cs * ci) ci) (py_range co stop)).
Proof. exact contig_read_raw_data_for_channel_eq. Qed.

(* ... and on an interleaved segment *)
Theorem interleaved_read_channel_data_chunks_translated_partial : forall sg objs path data pos co stop cs,
    seg_layout sg = Ok LInterleaved -> 0 <= pos -> 0 <= cs ->
    Forall (fun o => sized o <> None) objs -> (forall o0, hd_error objs = Some o0 -> 0 <= so_nvals o0 * (stop - co)) ->
    mapr (fun p => (chunks_values (fst p), pf_data (snd p), pf_pos (snd p)))
         (segment_read_channel_data_chunks_gen sg (mkPf data pos) objs path co stop cs)
    = mapr (fun p => (Some (map (chunk_vals path) (fst p)), data,
                      match fst p with [] => pos + (blen (drop pos data) - blen (snd p)) | _ => pos + zlen (fst p) * cs end))
           (read_interleaved (toc_endian (sg_toc sg)) objs (stop - co) (drop pos data)).
Proof. exact interleaved_read_channel_data_chunks_segment_eq. Qed.

(* the real file of Props/C01_gen5.v: the hypotheses hold for the string channel b in chunk 1 of the contiguous segment
   (chunk size 14: 8 bytes of int32 and the string block of 6), and the translated generator returns what the real
   list(segment.read_raw_data_for_channel(f, path, chunk_offset)) returns, with the same f.tell() *)
Section Examples.
Import String.
Local Open Scope string_scope.
Example c04_gen4_hypotheses :
  seg_layout ex_seg1 = Ok LContig /\ get_chunk_size_gen ex_seg1 = Ok 14 /\ Forall obj_ok (data_objs (sg_objs ex_seg1)) /\
  (forall ci, 1 <= ci < sg_nchunks ex_seg1 ->
              Forall (fun o => 0 <= chunk_nvals o ci (sg_nchunks ex_seg1) (sg_final ex_seg1)) (data_objs (sg_objs ex_seg1)) /\
              sizes_real (toc_endian (sg_toc ex_seg1)) (data_objs (sg_objs ex_seg1)) ci (sg_nchunks ex_seg1) (sg_final ex_seg1)
                         (hex "2f2767272f276227") (drop (sg_data ex_seg1 + 14 * ci) ex_file)).
Proof. exact ex_lazy_hyps. Qed.

Example c04_gen4_example :
  mapr (fun p => (chunks_values (fst p), pf_pos (snd p)))
       (segment_read_raw_data_for_channel_gen ex_seg1 (mkPf ex_file 7) (hex "2f2767272f276227") 1 None)
  = Ok (Some [[hex "796f"]], 140) /\
  mapr (fun p => (chunks_values (fst p), pf_pos (snd p)))
       (segment_read_raw_data_for_channel_gen ex_seg1 (mkPf ex_file 7) (hex "2f2767272f276127") 0 None)
  = Ok (Some [[hex "01000000"; hex "feffffff"]; [hex "03000000"; hex "04000000"]], 140) /\
  seg_layout ex_seg3 = Ok LInterleaved /\
  mapr (fun p => (chunks_values (fst p), pf_pos (snd p)))
       (segment_read_raw_data_for_channel_gen ex_seg3 (mkPf ex_file 7) (hex "2f2767272f276127") 0 None)
  = Ok (Some [[hex "05000000"]], 273).
Proof. exact ex_lazy_seg_gen. Qed.
End Examples.

Print Assumptions segment_read_channel_data_chunks_dispatch_translated.
Print Assumptions daqmx_read_channel_data_chunk_translated.
Print Assumptions segment_read_raw_data_for_channel_translated.
Print Assumptions contig_read_channel_data_chunks_translated.
Print Assumptions contig_read_raw_data_for_channel_translated_partial.
Print Assumptions interleaved_read_channel_data_chunks_translated_partial.
Print Assumptions c04_gen4_hypotheses.
Print Assumptions c04_gen4_example.
