(* C11 — DAQmx raw data is decoded at the declared buffer, stride, offset and type.
   FULL STATEMENT (DESIGN.md section 7 C11): daqmx_addressing — the value of
   scaler s of channel ch at row i of chunk j is the typed value at
     data_position + j * chunk_bytes + buffer_base(b) + i * width(b) + byte_offset(s)
   (digital lines: bit (bit_offset mod 8) of the value at byte bit_offset / 8).
   PROVED below for the eager reader model (Model/Layout.v, read_segment_chunks /
   read_daqmx_chunk) as [daqmx_segment_addressing] (channels of type DaqMxRawData:
   raw_scaler_data[scale_id]) and [daqmx_segment_addressing_typed] (channels whose
   type is their single scaler's type: raw data), from:
     - the row matrix of a buffer is strided direct addressing and has exactly
       the complete rows present (rows_are_strided, rows_complete,
       rows_count_available: a truncated buffer yields only complete rows);
     - column selection = direct addressing (column_direct_addressing);
     - scaler_values = typed value / addressed bit at each row and nothing else
       (scaler_direct_addressing, scaler_decodable_iff);
     - buffers read one after another = windows at the running sum of
       rows * width (daqmx_buffers_direct, read_rows_consumed);
     - the dictionary bookkeeping files each scaler under (path, scale id).
   Hypotheses that are explicit: paths distinct within the segment, scale ids
   distinct within a channel, widths and lengths non-negative.
   Still PARTIAL w.r.t. the property's last sentence: "lazy windows and chunk
   streams equal slices of the eager result" is C03/C04's statement and is
   covered here only by the correspondence check; buffer dimensions
   (get_buffer_dimensions) enter as the hypothesis [buffer_dims objs = Ok dims]. *)
From Coq Require Import List ZArith.
Import ListNotations.
From NpTdms Require Import Base.Bytes Base.Res Model.Tokens Model.SegState Model.Layout Model.Reader
     Proofs.DaqmxProofs.
Local Open Scope Z_scope.

(* row i of the row matrix built from a flat buffer is the bytes at i * width *)
Theorem rows_are_strided : forall (fuel : nat) (width : Z) (buf : bytes) (i : nat) (row : bytes),
    0 < width ->
    nth_error (items_of fuel width buf) i = Some row ->
    row = read_at (Z.of_nat i * width) width buf.
Proof. exact items_of_nth. Qed.

(* the matrix has exactly the complete rows of the buffer *)
Theorem rows_complete : forall (width : Z) (buf : bytes),
    0 < width -> Z.of_nat (length (items width buf)) = blen buf / width.
Proof. exact items_length. Qed.

(* a buffer of n rows of w bytes at [base], possibly cut short by the end of
   the data: the complete rows among the bytes present *)
Theorem rows_count_available : forall (w n base : Z) (cur : bytes),
    0 < w -> 0 <= n -> 0 <= base ->
    Z.of_nat (length (items w (read_at base (w * n) cur)))
    = Z.min (w * n) (blen cur - Z.min base (blen cur)) / w.
Proof. exact DaqmxProofs.rows_count_available. Qed.

Theorem rows_count_full : forall (w n base : Z) (cur : bytes),
    0 < w -> 0 <= n -> 0 <= base -> base + w * n <= blen cur ->
    Z.of_nat (length (items w (read_at base (w * n) cur))) = n.
Proof. exact DaqmxProofs.rows_count_full. Qed.

Theorem column_direct_addressing : forall (e : endian) (dt : Z) (fuel : nat) (width : Z) (buf : bytes)
                                          (off sz : Z) (i : nat),
    0 < width -> 0 <= off -> off + sz <= width ->
    (i < length (items_of fuel width buf))%nat ->
    nth_error (column_values e dt (items_of fuel width buf) off sz) i
    = Some (canon_value e dt (read_at (Z.of_nat i * width + off) sz buf)).
Proof. exact DaqmxProofs.column_direct_addressing. Qed.

(* the denotation of a scaler at row i of a buffer starting at [base] *)
Theorem scaler_value_at_unfold : forall e kind s dt sz base width buf i,
    scaler_value_at e kind s dt sz base width buf i =
    if kind =? DIGITAL_LINE_SCALER
    then digital_bit (sc_off s mod 8)
                     (canon_value e dt (read_at (base + Z.of_nat i * width + sc_off s / 8) sz buf))
    else canon_value e dt (read_at (base + Z.of_nat i * width + sc_off s) sz buf).
Proof. reflexivity. Qed.

Theorem scaler_direct_addressing : forall (e : endian) (kind : Z) (s : scaler) (fuel : nat) (width : Z)
                                          (buf : bytes) (dt sz : Z) (vs : list bytes),
    0 < width -> 0 <= sc_off s ->
    daqmx_type (sc_type s) = Some dt -> tds_size dt = Some (Some sz) ->
    scaler_values e kind s (items_of fuel width buf) width = Ok vs ->
    length vs = length (items_of fuel width buf) /\
    forall i, (i < length (items_of fuel width buf))%nat ->
              nth_error vs i = Some (scaler_value_at e kind s dt sz 0 width buf i).
Proof. exact DaqmxProofs.scaler_direct_addressing. Qed.

Theorem scaler_decodable_iff : forall (e : endian) (kind : Z) (s : scaler) (rows : list bytes)
                                      (width dt sz : Z),
    daqmx_type (sc_type s) = Some dt -> tds_size dt = Some (Some sz) ->
    ((exists vs, scaler_values e kind s rows width = Ok vs) <->
     (if kind =? DIGITAL_LINE_SCALER then sc_off s / 8 else sc_off s) + sz <= width).
Proof. exact scaler_values_ok_iff. Qed.

(* read_interleaved_segment_bytes consumes min(width * nrows, available) bytes *)
Theorem read_rows_consumed : forall (w n : Z) (cur : bytes),
    0 <= w * n -> blen (snd (read_rows w n cur)) = blen cur - Z.min (w * n) (blen cur).
Proof. exact DaqmxProofs.read_rows_consumed. Qed.

(* buffers read sequentially = buffers addressed from the chunk base
   ([daqmx_buffers_at] takes buffer k's rows from
    items w_k (read_at (base + sum_{j<k} w_j * n_j) (w_k * n_k) buf)) *)
Theorem daqmx_buffers_direct : forall (e : endian) (objs : list sobj) dims bi base buf data sdata,
    0 <= base -> Forall (fun d => 0 <= fst d /\ 0 <= snd d) dims ->
    daqmx_buffers e objs dims bi (drop base buf) data sdata
    = daqmx_buffers_at e objs dims bi base buf data sdata.
Proof. exact DaqmxProofs.daqmx_buffers_direct. Qed.

(* [holds path id vs c]: chunk c has, under channel [path], scaler data whose
   entry for scale id [id] is [vs];
   [buffer_base dims k] = sum over the first k buffers of width * rows;
   [chunk_bytes dims]   = sum over all buffers of width * rows. *)
Theorem holds_unfold : forall path id vs c,
    holds path id vs c <-> exists l, alookup path c = Some (CScalers l) /\ zfind id l = Some vs.
Proof. intros; reflexivity. Qed.

Theorem buffer_base_unfold : forall dims k,
    buffer_base dims k = zsum (map (fun d => snd d * fst d) (firstn k dims)).
Proof. reflexivity. Qed.

Theorem chunk_bytes_unfold : forall dims,
    chunk_bytes dims = zsum (map (fun d => snd d * fst d) dims).
Proof. reflexivity. Qed.

(* one chunk *)
Theorem daqmx_chunk_addressing : forall e objs cur c cur1 dims o q s k n w dt sz,
    read_daqmx_chunk e objs cur = Ok (c, cur1) ->
    buffer_dims objs = Ok dims ->
    Forall (fun d => 0 <= fst d /\ 0 <= snd d) dims ->
    In o objs -> NoDup (map so_path objs) -> so_daqmx o = Some q -> so_dtype o = Some T_DAQMX ->
    In s (dq_scalers q) -> NoDup (map sc_id (dq_scalers q)) ->
    nth_error dims k = Some (n, w) -> sc_buf s = Z.of_nat k ->
    0 < w -> 0 <= sc_off s ->
    daqmx_type (sc_type s) = Some dt -> tds_size dt = Some (Some sz) ->
    exists vs,
      holds (so_path o) (sc_id s) vs c /\
      length vs = length (items w (read_at (buffer_base dims k) (w * n) cur)) /\
      forall i, (i < length vs)%nat ->
                nth_error vs i = Some (scaler_value_at e (dq_kind q) s dt sz (buffer_base dims k) w cur i).
Proof. exact DaqmxProofs.daqmx_chunk_addressing. Qed.

(* all chunks of a segment; [cur] is the file from the segment's data_position on *)
Theorem daqmx_segment_addressing : forall sg cur cs cur' dims o q s k n w dt sz j c,
    seg_layout sg = Ok LDaqmx ->
    read_segment_chunks sg cur = Ok (cs, cur') ->
    buffer_dims (data_objs (sg_objs sg)) = Ok dims ->
    Forall (fun d => 0 <= fst d /\ 0 <= snd d) dims ->
    In o (data_objs (sg_objs sg)) -> NoDup (map so_path (data_objs (sg_objs sg))) ->
    so_daqmx o = Some q -> so_dtype o = Some T_DAQMX ->
    In s (dq_scalers q) -> NoDup (map sc_id (dq_scalers q)) ->
    nth_error dims k = Some (n, w) -> sc_buf s = Z.of_nat k ->
    0 < w -> 0 <= sc_off s ->
    daqmx_type (sc_type s) = Some dt -> tds_size dt = Some (Some sz) ->
    nth_error cs j = Some c ->
    let base := Z.of_nat j * chunk_bytes dims + buffer_base dims k in
    exists vs,
      holds (so_path o) (sc_id s) vs c /\
      length vs = length (items w (read_at base (w * n) cur)) /\
      forall i, (i < length vs)%nat ->
                nth_error vs i
                = Some (scaler_value_at (toc_endian (sg_toc sg)) (dq_kind q) s dt sz base w cur i).
Proof. exact DaqmxProofs.daqmx_segment_addressing. Qed.

(* channels whose data type is their single scaler's type: plain raw data *)
Theorem daqmx_segment_addressing_typed : forall sg cur cs cur' dims o q s dto k n w dt sz j c,
    seg_layout sg = Ok LDaqmx ->
    read_segment_chunks sg cur = Ok (cs, cur') ->
    buffer_dims (data_objs (sg_objs sg)) = Ok dims ->
    Forall (fun d => 0 <= fst d /\ 0 <= snd d) dims ->
    In o (data_objs (sg_objs sg)) -> NoDup (map so_path (data_objs (sg_objs sg))) ->
    so_daqmx o = Some q -> so_dtype o = Some dto -> dto <> T_DAQMX -> dq_scalers q = [s] ->
    nth_error dims k = Some (n, w) -> sc_buf s = Z.of_nat k ->
    0 < w -> 0 <= sc_off s ->
    daqmx_type (sc_type s) = Some dt -> tds_size dt = Some (Some sz) ->
    nth_error cs j = Some c ->
    let base := Z.of_nat j * chunk_bytes dims + buffer_base dims k in
    exists vs,
      alookup (so_path o) c = Some (CData vs) /\
      length vs = length (items w (read_at base (w * n) cur)) /\
      forall i, (i < length vs)%nat ->
                nth_error vs i
                = Some (scaler_value_at (toc_endian (sg_toc sg)) (dq_kind q) s dt sz base w cur i).
Proof. exact DaqmxProofs.daqmx_segment_addressing_typed. Qed.

(* a concrete big-endian segment: two buffers (2 x 4 and 3 x 3 bytes), two
   chunks, int16 / uint8 / digital-line scalers (values in Proofs/DaqmxProofs.v) *)
Section Examples.
Import String.
Local Open Scope string_scope.
Example c11_segment_example :
  buffer_dims [ex_oa; ex_ob; ex_oc] = Ok [(2, 4); (3, 3)] /\
  read_segment_chunks ex_seg ex_data =
  Ok ([ [(hex "2f2761", CScalers [(0, [hex "0201"; hex "1211"]); (1, [hex "0403"; hex "1413"])]);
         (hex "2f2762", CScalers [(0, [hex "a1"; hex "b1"; hex "c1"])]);
         (hex "2f2763", CScalers [(0, [hex "00"; hex "00"; hex "00"])])];
        [(hex "2f2761", CScalers [(0, [hex "2221"; hex "3231"]); (1, [hex "2423"; hex "3433"])]);
         (hex "2f2762", CScalers [(0, [hex "04"; hex "ff"; hex "01"])]);
         (hex "2f2763", CScalers [(0, [hex "01"; hex "01"; hex "00"])])] ], []) /\
  (* chunk 1, buffer 1 (base 17 + 8), row 1, byte offset 1: address 17 + 8 + 1*3 + 1 = 29 *)
  scaler_value_at BE FORMAT_CHANGING_SCALER (mkScaler 0 1 1 0 0) 5 1
                  (1 * chunk_bytes [(2, 4); (3, 3)] + buffer_base [(2, 4); (3, 3)] 1) 3 ex_data 1
  = hex "ff" /\
  read_at 29 1 ex_data = hex "ff" /\
  (* the digital line at the same row: bit 2 of byte 29 *)
  scaler_value_at BE DIGITAL_LINE_SCALER (mkScaler 0 1 10 0 0) 5 1
                  (1 * chunk_bytes [(2, 4); (3, 3)] + buffer_base [(2, 4); (3, 3)] 1) 3 ex_data 1
  = hex "01".
Proof. exact daqmx_segment_example. Qed.
End Examples.

Print Assumptions rows_are_strided.
Print Assumptions rows_complete.
Print Assumptions rows_count_available.
Print Assumptions rows_count_full.
Print Assumptions column_direct_addressing.
Print Assumptions scaler_value_at_unfold.
Print Assumptions scaler_direct_addressing.
Print Assumptions scaler_decodable_iff.
Print Assumptions read_rows_consumed.
Print Assumptions daqmx_buffers_direct.
Print Assumptions holds_unfold.
Print Assumptions buffer_base_unfold.
Print Assumptions chunk_bytes_unfold.
Print Assumptions daqmx_chunk_addressing.
Print Assumptions daqmx_segment_addressing.
Print Assumptions daqmx_segment_addressing_typed.
Print Assumptions c11_segment_example.
