(* C11 — DAQmx raw data is decoded at the declared buffer, stride, offset and type.
   FULL STATEMENT (DESIGN.md section 7 C11): daqmx_addressing.
   Proved so far (Proofs/DaqmxProofs.v): selecting a scaler's byte columns from
   the row matrix is direct addressing into the flat buffer. *)
From Coq Require Import List ZArith.
Import ListNotations.
From NpTdms Require Import Base.Bytes Base.Res Model.Tokens Model.SegState Model.Layout Model.Reader
     Proofs.DaqmxProofs.
Local Open Scope Z_scope.

(* row i of the row matrix built from a flat buffer is the bytes at i * width *)
Theorem rows_are_strided : forall (fuel : nat) (width : Z) (buf : bytes) (i : nat) (row : bytes),
    0 < width ->
    nth_error (items_of fuel width buf) i = Some row ->
    row = read_at (Z.of_nat i * width) width buf.
Proof. exact items_of_nth. Qed.

Print Assumptions rows_are_strided.
