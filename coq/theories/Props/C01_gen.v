(* C01 (companion) — the reader's integer decision logic AS TRANSLATED FROM THE SOURCE
   equals the hand-written model.  Statements only (proofs: Proofs/GenReaderEquiv.v).

   Gen/PyFuncsReader.v and Gen/TypeTable.v are regenerated from /repo on every run of the
   check by harness/gen/gen_pyfuncs_reader.py (Python `ast`, fail-closed; the type table by
   reflection on nptdms.types).  Each theorem below says that a translated function EQUALS
   the model function the other theorems of C01/C02/C06/C11 are about, for all inputs; an
   edit of the source changes the translated Gallina and these proofs stop checking.

   Precondition [bufs_nonneg objs] (only where DAQmx buffers are indexed): every scaler's
   raw_buffer_index is >= 0.  It is an unsigned 32-bit field, so it holds for everything the
   parser produces; the hand model answers IndexError for a negative index where Python
   would wrap around.

   Conventions of the translation (part of the trusted base, see the generator): memo caches
   are read as cold; `//` and `%` are Z.div / Z.modulo (equal to Python for non-zero
   divisors); list(set(..)) is the list of distinct elements (only its length and a single
   element are used); arguments of log.* calls are not evaluated.

   Not translated: _trim_channel_chunk (builds result objects with a dict comprehension;
   its slice bounds are modelled by hand in Model/LazyRead.v trim_channel_chunk). *)
From Coq Require Import List ZArith.
Import ListNotations.
From NpTdms Require Import Base.Bytes Base.Res Model.Tokens Model.SegState Model.Layout
     Gen.TypeTable Gen.PyFuncsReader Proofs.GenReaderEquiv.
Local Open Scope Z_scope.

(* ---- the type table, by reflection on nptdms.types.tds_data_types ---------------- *)

Theorem type_sizes_reflected : forall ty, tt_size ty = tds_size ty.
Proof. exact tt_size_eq. Qed.

Theorem nptypes_reflected : forall ty, tt_has_nptype ty = has_nptype ty.
Proof. exact tt_has_nptype_eq. Qed.

Theorem struct_types_reflected : forall ty, tt_is_struct ty = is_struct_type ty.
Proof. exact tt_is_struct_eq. Qed.

Theorem daqmx_types_reflected : forall code, tt_daqmx_type code = daqmx_type code.
Proof. exact tt_daqmx_type_eq. Qed.

Theorem constants_reflected :
  tt_FORMAT_CHANGING_SCALER = FORMAT_CHANGING_SCALER /\ tt_DIGITAL_LINE_SCALER = DIGITAL_LINE_SCALER /\
  tt_RAW_DATA_INDEX_NO_DATA = RAW_DATA_INDEX_NO_DATA /\
  tt_RAW_DATA_INDEX_MATCHES_PREVIOUS = RAW_DATA_INDEX_MATCHES_PREVIOUS /\
  tt_kTocMetaData = TOC_META /\ tt_kTocRawData = TOC_RAW /\ tt_kTocDAQmxRawData = TOC_DAQMX /\
  tt_kTocInterleavedData = TOC_INTERLEAVED /\ tt_kTocBigEndian = TOC_BIGENDIAN /\
  tt_kTocNewObjList = TOC_NEWLIST.
Proof. exact tt_constants_eq. Qed.

(* obj.data_type.size, through the reflected table *)
Theorem object_size_reflected : forall o, gsized o = sized o.
Proof. exact gsized_eq. Qed.

(* ---- nptdms/tdms_segment.py -------------------------------------------------------- *)

(* TdmsSegment._have_daqmx_objects (None is never returned) *)
Theorem have_daqmx_objects_translated : forall s,
    have_daqmx_objects_gen s = opt_view (have_daqmx (sg_objs s)).
Proof. exact have_daqmx_objects_eq. Qed.

(* TdmsSegment._get_chunk_size *)
Theorem get_chunk_size_translated : forall s,
    bufs_nonneg (sg_objs s) -> get_chunk_size_gen s = chunk_size (sg_objs s).
Proof. exact get_chunk_size_eq. Qed.

(* TdmsSegment._compute_final_chunk_lengths: DAQmx, unsized, proportional and
   contiguous-truncated (with its break) branches *)
Theorem compute_final_chunk_lengths_translated : forall s cs rem,
    bufs_nonneg (sg_objs s) ->
    compute_final_chunk_lengths_gen s cs rem
    = final_chunk_lengths (sg_toc s) (sg_incomplete s) (sg_objs s) cs rem.
Proof. exact compute_final_chunk_lengths_eq. Qed.

(* TdmsSegment._calculate_chunks: (num_chunks, final_chunk_lengths_override) after the call,
   starting from the values TdmsSegment.__init__ assigns *)
Theorem calculate_chunks_translated : forall s,
    bufs_nonneg (sg_objs s) ->
    calculate_chunks_gen s
    = calculate_chunks (sg_toc s) (sg_incomplete s) (sg_objs s) (sg_next s - sg_data s).
Proof. exact calculate_chunks_eq. Qed.

(* ContiguousDataReader._get_channel_number_values *)
Theorem get_channel_number_values_translated : forall n f o ci,
    get_channel_number_values_gen n f o ci = Ok (chunk_nvals o ci n f).
Proof. exact get_channel_number_values_eq. Qed.

(* ---- nptdms/reader.py --------------------------------------------------------------- *)

(* _number_of_segment_values *)
Theorem number_of_segment_values_translated : forall o s,
    number_of_segment_values_gen o s = Ok (seg_values o (sg_nchunks s) (sg_final s)).
Proof. exact number_of_segment_values_eq. Qed.

(* TdmsReader._read_lead_in, position arithmetic: data_position, next_segment_pos (marker
   0xFFFFFFFFFFFFFFFF, clamping to the file size), segment_incomplete, EOFError *)
Theorem read_lead_in_translated : forall fs seg_pos l,
    read_lead_in_gen fs seg_pos (l_toc l) (l_next l) (l_raw l)
    = lead_view seg_pos (l_toc l) (lead_positions seg_pos l fs).
Proof. exact read_lead_in_eq. Qed.

(* ---- headline corollary of C01 restated on the translated functions ---------------- *)

(* _calculate_chunks on a whole number of chunks: that number, no override *)
Theorem calculate_chunks_exact_translated : forall s csize n,
    bufs_nonneg (sg_objs s) ->
    get_chunk_size_gen s = Ok csize -> 0 < csize -> 0 <= n ->
    sg_next s - sg_data s = n * csize ->
    calculate_chunks_gen s = Ok (n, None).
Proof. exact calculate_chunks_exact_gen. Qed.

(* concrete instances: int32 x 3 + float64 x 2 per chunk (28 bytes); two whole chunks; cut
   after 40 / 46 bytes, contiguous-incomplete and proportional *)
Example c01_gen_hypotheses_hold :
  bufs_nonneg (sg_objs (ex_seg 56 false)) /\ bufs_nonneg (sg_objs (ex_dseg 30)).
Proof. exact ex_bufs_nonneg. Qed.

Example c01_gen_example :
  get_chunk_size_gen (ex_seg 56 false) = Ok 28 /\
  calculate_chunks_gen (ex_seg 56 false) = Ok (2, None) /\
  calculate_chunks_gen (ex_seg 40 true) = Ok (2, Some [(so_path ex_a, 3)]) /\
  calculate_chunks_gen (ex_seg 46 true) = Ok (2, Some [(so_path ex_a, 3); (so_path ex_b, 0)]) /\
  calculate_chunks_gen (ex_seg 46 false) = Ok (2, Some [(so_path ex_a, 1); (so_path ex_b, 1)]).
Proof. exact ex_c01_values. Qed.

Print Assumptions type_sizes_reflected.
Print Assumptions nptypes_reflected.
Print Assumptions struct_types_reflected.
Print Assumptions daqmx_types_reflected.
Print Assumptions constants_reflected.
Print Assumptions object_size_reflected.
Print Assumptions have_daqmx_objects_translated.
Print Assumptions get_chunk_size_translated.
Print Assumptions compute_final_chunk_lengths_translated.
Print Assumptions calculate_chunks_translated.
Print Assumptions get_channel_number_values_translated.
Print Assumptions number_of_segment_values_translated.
Print Assumptions read_lead_in_translated.
Print Assumptions calculate_chunks_exact_translated.
Print Assumptions c01_gen_hypotheses_hold.
Print Assumptions c01_gen_example.
