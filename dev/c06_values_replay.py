"""Replay of the Props/C06_values.v example files on the implementation.

For every cut offset 4..len of rc_file, rc2_file (Proofs/ReadCorrect.v) and tv_file
(Proofs/TruncValuesExamples.v): read the cut bytes with nptdms (eager and lazy), check
prefix / len / lazy == eager, then compare the implementation's observation token by
token with Model/Reader.v rd_all evaluated inside Coq (agree_all).

Run from the verif root:   PYTHONPATH=/repo /venv/bin/python dev/c06_values_replay.py
Expected last line:        = (618%nat, true)
"""
import os
import re
import subprocess
import sys
import tempfile

ROOT = os.path.dirname(os.path.dirname(os.path.abspath(__file__)))
sys.path.insert(0, os.path.join(ROOT, "harness"))
import common as H           # noqa: E402

H.ensure_env()
import tdmsgen as G          # noqa: E402
import readerlib as R        # noqa: E402
import c06                   # noqa: E402

G.silence_logs()
THEORIES = os.path.join(ROOT, "coq", "theories")
SHOW = {("rc_file", 190), ("rc_file", 207), ("rc_file", 220), ("rc2_file", 108), ("rc2_file", 150),
        ("tv_file", 152), ("tv_file", 157), ("tv_file", 170)}


def coqc(text, tmp, name):
    path = os.path.join(tmp, name)
    with open(path, "w") as fh:
        fh.write(text)
    return subprocess.run(["timeout", "900", "coqc", "-Q", THEORIES, "NpTdms", path],
                          capture_output=True, text=True, cwd=tmp).stdout


def main():
    names = ["rc_file", "rc2_file", "tv_file"]
    with tempfile.TemporaryDirectory() as tmp:
        out = coqc("From Coq Require Import List ZArith.\nImport ListNotations.\n"
                   "From NpTdms Require Import Base.Bytes Model.FileSyn Proofs.ReadCorrect "
                   "Proofs.TruncValuesExamples.\nOpen Scope Z_scope.\n" +
                   "".join("Eval vm_compute in (map (fun b => Z.of_N (Byte.to_N b)) (ser_file %s)).\n" % n
                           for n in names), tmp, "dump.v")
        lists = re.findall(r"= \[([0-9;\s]+)\]\s*: list Z", out)
        files = [bytes(int(x) for x in l.replace("\n", " ").split(";")) for l in lists]
        assert len(files) == len(names), out
        cases = []
        for name, full in zip(names, files):
            comp, _, _ = c06.read_struct(full, lazy=False)
            for k in range(4, len(full) + 1):
                data = full[:k]
                eager, inc, stat = c06.read_struct(data, lazy=False)
                lz, inc2, _ = c06.read_struct(data, lazy=True)
                assert lz == eager and inc == inc2, (name, k, "lazy != eager")
                for p, (ln, vals) in eager.items():
                    assert ln == len(vals), (name, k, p, "len")
                    assert vals == comp[p][1][:len(vals)], (name, k, p, "not a prefix")
                toks, ex = G.read_eager(data)
                assert ex is None, (name, k, ex)
                cases.append(R.case_all(data, toks))
                if (name, k) in SHOW:
                    print(name, k, {p.decode(): (ln, [v.hex() for v in vals]) for p, (ln, vals) in eager.items()},
                          "incomplete=%s" % inc, stat)
        out = coqc(R.READER_IMPORTS + "From Coq Require Import ZArith List String.\nImport ListNotations.\n"
                   "Open Scope string_scope.\nOpen Scope Z_scope.\n"
                   "Definition cases : list (bytes * option (list tok)) := [\n" + ";\n".join(cases) + "].\n"
                   "Eval vm_compute in (List.length cases, forallb (fun c => agree_all (fst c) (snd c)) cases).\n",
                   tmp, "cases.v")
        print(out.strip())
        return 0 if "true)" in out else 1


if __name__ == "__main__":
    sys.exit(main())
