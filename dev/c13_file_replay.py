"""Replay of the Props/C13_file.v examples on the real code, and of the bridge on every
integer / float property encoding.

1. sx_file   (c13_file_eager_a/b/c, c13_file_lazy_*): int16 channels a (own Linear then
   Polynomial), b (inherits the group's Linear), c (NI_Scaling_Status = 'scaled'); root has a
   timestamp property, a has a bool property.
2. dqs_file  (c13_file_daqmx_eval, c13_file_daqmx_window): DaqMxRawData channel, scalers
   id 0 int16 / id 1 uint8, NI_Scale[2] = Add(0, 1), NI_Scale[3] = Linear(0.5, 1.0).
3. nc_file   (c13_file_noncanonical_group): group object spelled "/'g'/" - the TdmsGroup has
   the scaling properties, the channel is not scaled.
4. every TDMS integer type (1..8) for counts / input sources x every float type (9, 10, 0x19,
   0x1A) for the numeric parameters x {float32, uint16} data x both byte orders: the file
   bytes are read by npTDMS and by Proofs/ScaleFile.scaled_read_eager inside Coq
   (agrees_file), bit-exact.

The three files are built with the harness's independent encoder (harness/tdmsgen.py); the
Coq definitions sx_file / dqs_file / nc_file in Proofs/ScaleFile.v are the same syntax
(printed by harness/spec_tie.c_segs).

Run:  cd <verif> && PYTHONPATH=/repo /venv/bin/python dev/c13_file_replay.py
"""
import io
import itertools
import pathlib
import struct
import sys

_root = pathlib.Path(__file__).resolve().parent.parent
sys.path.insert(0, str(_root / "harness"))
import common as H  # noqa: E402
import tdmsgen as G  # noqa: E402
import daqmxgen as D  # noqa: E402
from nptdms import TdmsFile  # noqa: E402

S = lambda n, s: G.Prop(n.encode(), G.T_STRING, s.encode())            # noqa: E731
F = lambda n, x: G.Prop(n.encode(), 10, struct.pack("<d", x))           # noqa: E731
U = lambda n, x: G.Prop(n.encode(), 7, struct.pack("<I", x))            # noqa: E731


def hexes(a):
    return [float(x).hex() for x in a] if a.dtype.kind == "f" else [int(x) for x in a]


def sx_file():
    root = [S("title", "demo"), G.Prop(b"created", G.T_TIME, struct.pack("<Qq", 1 << 63, 3700000000))]
    g = [U("NI_Number_Of_Scales", 1), S("NI_Scale[0]_Scale_Type", "Linear"),
         F("NI_Scale[0]_Linear_Slope", 0.5), F("NI_Scale[0]_Linear_Y_Intercept", 10.0)]
    a = [S("NI_Scale[0]_Scale_Type", "Linear"), F("NI_Scale[0]_Linear_Slope", 2.0),
         F("NI_Scale[0]_Linear_Y_Intercept", 1.5), S("NI_Scale[1]_Scale_Type", "Polynomial"),
         U("NI_Scale[1]_Polynomial_Coefficients_Size", 3),
         F("NI_Scale[1]_Polynomial_Coefficients[0]", 1.0), F("NI_Scale[1]_Polynomial_Coefficients[1]", 0.0),
         F("NI_Scale[1]_Polynomial_Coefficients[2]", 0.25), U("NI_Scale[1]_Polynomial_Input_Source", 0),
         G.Prop(b"flag", G.T_BOOL, b"\x01")]
    c = [S("NI_Scaling_Status", "scaled"), U("NI_Number_Of_Scales", 1), S("NI_Scale[0]_Scale_Type", "Linear"),
         F("NI_Scale[0]_Linear_Slope", 3.0), F("NI_Scale[0]_Linear_Y_Intercept", 3.0)]
    A = [1, -2, 300, 4, 5, -6, 7, -32768, 32767]
    B = [10, 20, 30, 40, 50, 60, 70, 80, 90]
    C = [-1, -2, -3, 100, 200, 300, 0, 1, 2]
    ch = lambda j: b"".join(struct.pack("<3h", *X[3 * j:3 * j + 3]) for X in (A, B, C))   # noqa: E731
    full = ("full", 20, 2, 1, 3, None)
    return [G.Seg(e="<", toc=14, entries=[
                G.Entry(b"/", None, root), G.Entry(G.quote_path("g"), None, g),
                G.Entry(G.quote_path("g", "a"), full, a), G.Entry(G.quote_path("g", "b"), full, []),
                G.Entry(G.quote_path("h"), None, []), G.Entry(G.quote_path("h", "c"), full, c)],
                  data=ch(0) + ch(1)),
            G.Seg(e="<", toc=8, entries=None, data=ch(2))]


def dqs_file():
    p0 = G.quote_path("dq", "c0")
    props = [U("NI_Number_Of_Scales", 4), S("NI_Scale[2]_Scale_Type", "Add"),
             U("NI_Scale[2]_Add_Left_Operand_Input_Source", 0), U("NI_Scale[2]_Add_Right_Operand_Input_Source", 1),
             S("NI_Scale[3]_Scale_Type", "Linear"), F("NI_Scale[3]_Linear_Slope", 0.5),
             F("NI_Scale[3]_Linear_Y_Intercept", 1.0), U("NI_Scale[3]_Linear_Input_Source", 2)]
    ent = G.Entry(p0, ("daqmx", D.FORMAT_CHANGING, G.T_DAQMX, 1, 2, [(3, 0, 0, 0, 0), (0, 0, 3, 0, 1)], [4]), props)
    row = lambda i16, u8: struct.pack("<hBB", i16, 0xEE, u8)             # noqa: E731
    d1 = row(100, 1) + row(-200, 2) + row(32767, 255) + row(-32768, 0)
    d2 = row(7, 9) + row(-8, 10)
    return [G.Seg(e="<", toc=142, entries=[ent], data=d1), G.Seg(e="<", toc=136, entries=None, data=d2)]


def nc_file(gpath=b"/'g'/"):
    g = [U("NI_Number_Of_Scales", 1), S("NI_Scale[0]_Scale_Type", "Linear"),
         F("NI_Scale[0]_Linear_Slope", 0.5), F("NI_Scale[0]_Linear_Y_Intercept", 10.0)]
    return [G.Seg(e="<", toc=14, entries=[G.Entry(gpath, None, g),
                  G.Entry(G.quote_path("g", "c"), ("full", 20, 2, 1, 3, None), [])],
                  data=struct.pack("<3h", 10, 20, 30))]


def part123():
    data = G.ser_file(sx_file())
    f = TdmsFile.read(io.BytesIO(data))
    print("1. sx_file (%d bytes)" % len(data))
    for gn, cn in (("g", "a"), ("g", "b"), ("h", "c")):
        print("   eager %s/%s %s %s" % (gn, cn, f[gn][cn][:].dtype, hexes(f[gn][cn][:])))
    with TdmsFile.open(io.BytesIO(data)) as f2:
        for gn, cn in (("g", "a"), ("g", "b")):
            print("   lazy read_data(2, 5) %s/%s %s" % (gn, cn, hexes(f2[gn][cn].read_data(2, 5))))
        print("   lazy read_data(4, None) h/c %s" % hexes(f2["h"]["c"].read_data(4, None)))
    data = G.ser_file(dqs_file())
    f = TdmsFile.read(io.BytesIO(data))
    ch = f["dq"]["c0"]
    print("2. dqs_file: channel[:] = %s; read_data(1, 3) = %s; scalers = %s" % (
        hexes(ch[:]), hexes(ch.read_data(1, 3)), {k: hexes(v) for k, v in ch.read_data(scaled=False).items()}))
    for gp in (b"/'g'/", b"/'g'"):
        f = TdmsFile.read(io.BytesIO(G.ser_file(nc_file(gp))))
        print("3. group object stored as %r: %d group properties, channel[:] = %s"
              % (gp, len(f["g"].properties), hexes(f["g"]["c"][:])))


def part4():
    INT = {1: "b", 2: "h", 3: "i", 4: "q", 5: "B", 6: "H", 7: "I", 8: "Q"}
    FLT = {9: "f", 10: "d", 0x19: "f", 0x1A: "d"}
    cases = []
    for ity, fty in itertools.product(INT, FLT):
        Ii = lambda n, x: G.Prop(n.encode(), ity, struct.pack("<" + INT[ity], x))     # noqa: E731
        Ff = lambda n, x: G.Prop(n.encode(), fty, struct.pack("<" + FLT[fty], x))     # noqa: E731
        props = [Ii("NI_Number_Of_Scales", 2), S("NI_Scale[0]_Scale_Type", "Linear"),
                 Ff("NI_Scale[0]_Linear_Slope", 0.1), Ff("NI_Scale[0]_Linear_Y_Intercept", -2.5),
                 S("NI_Scale[1]_Scale_Type", "Polynomial"), Ii("NI_Scale[1]_Polynomial_Coefficients_Size", 2),
                 Ff("NI_Scale[1]_Polynomial_Coefficients[0]", 1.0 / 3), Ff("NI_Scale[1]_Polynomial_Coefficients[1]", 7.0),
                 Ii("NI_Scale[1]_Polynomial_Input_Source", 0)]
        e = ">" if (ity + fty) % 2 else "<"
        for dt, code, vals in ((9, "3f", (0.1, -1.5, 3e38)), (6, "3H", (1, 65535, 300))):
            seg = G.Seg(e=e, toc=14, entries=[G.Entry(G.quote_path("g", "c"), ("full", 20, dt, 1, 3, None), props)],
                        data=struct.pack(e + code, *vals))
            data = G.ser_file([seg])
            cases.append((data, TdmsFile.read(io.BytesIO(data))["g"]["c"][:]))

    def cf(x):
        return "nan" if x != x else ("infinity" if x == float("inf") else
                                     "neg_infinity" if x == float("-inf") else "(%s)%%float" % float(x).hex())
    ty = "bytes * bytes * option ScaleGraph.value"
    terms = ["(%s, %s, Some (ScaleGraph.VD [%s]))" % (H.chex(d), H.chex(b"/'g'/'c'"), "; ".join(cf(x) for x in out))
             for d, out in cases]
    imports = "From Coq Require Import ZArith PrimFloat.\nFrom NpTdms Require Import Base.Bytes Proofs.ScaleFile.\n"
    chk = "(fun c : %s => let '(data, path, obs) := c in agrees_file (scaled_read_eager data path) obs)" % ty
    bad, errors = H.run_sharded("C13", imports, ty, chk, terms, shard=16, tag="enc")
    print("4. %d property-encoding files: disagreements %s, errors %s" % (len(cases), bad, [x[1][-300:] for x in errors]))


if __name__ == "__main__":
    part123()
    part4()
