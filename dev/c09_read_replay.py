"""Replay of the Props/C09_read.v examples on the real code.

Prints ser_file rc_file / ser_index rc_file from Coq, writes them to disk and reads them with
PYTHONPATH=/repo nptdms: with / without the index beside the file (eager, lazy; complete and cut at 250),
and the index alone (metadata, refusal of data reads).  Compare with c09_read_example_tokens,
c09_read_cut250, c09_read_index_only, c09_read_index_only_refuses.

Run:  cd <verif> && PYTHONPATH=/repo /venv/bin/python dev/c09_read_replay.py
"""
import re, os, sys, warnings, tempfile, logging, subprocess, pathlib
_root = pathlib.Path(__file__).resolve().parent.parent
logging.disable(logging.CRITICAL)
import numpy as np
from nptdms import TdmsFile
_w = tempfile.mkdtemp(prefix='c09_read_coq_')
open(os.path.join(_w, 'B.v'), 'w').write("""From Coq Require Import List ZArith.
Import ListNotations.
From NpTdms Require Import Base.Bytes Model.FileSyn Proofs.ReadCorrect.
Set Printing Depth 1000000.
Eval vm_compute in (ser_file rc_file).
Eval vm_compute in (ser_index rc_file).
""")
txt = subprocess.run(['coqc', '-Q', str(_root / 'coq' / 'theories'), 'NpTdms', os.path.join(_w, 'B.v')],
                     capture_output=True, text=True, timeout=600).stdout
parts = txt.split(': bytes')
blobs = [bytes(int(x,16) for x in re.findall(r'Byte\.x([0-9a-f]{2})', p)) for p in parts[:2]]
data, index = blobs
print(len(data), len(index))
d = tempfile.mkdtemp(prefix='idxw_')
def obs(path, lazy=False):
    with warnings.catch_warnings():
        warnings.simplefilter('ignore')
        if lazy:
            with TdmsFile.open(path, raw_timestamps=True) as f:
                return [(c.path, c.dtype if c.data_type is not None else None, len(c), list(c[:]), list(c.read_data(1, 3))) for g in f.groups() for c in g.channels()]
        f = TdmsFile.read(path, raw_timestamps=True)
        return [(c.path, len(c), list(c[:]), dict(c.properties)) for g in f.groups() for c in g.channels()], f.file_status.incomplete_final_segment if hasattr(f,'file_status') else None
for label, dat in (('complete', data), ('cut250', data[:250])):
    p1 = os.path.join(d, label + '_plain.tdms'); p2 = os.path.join(d, label + '_with.tdms')
    open(p1,'wb').write(dat); open(p2,'wb').write(dat); open(p2 + '_index','wb').write(index)
    a, b = obs(p1), obs(p2)
    la, lb = obs(p1, True), obs(p2, True)
    print(label, 'eager equal:', repr(a) == repr(b), 'lazy equal:', repr(la) == repr(lb))
    print('  ', b)
    print('  ', lb)
# index only
p3 = os.path.join(d, 'only.tdms_index'); open(p3,'wb').write(index)
with warnings.catch_warnings():
    warnings.simplefilter('ignore')
    m1 = TdmsFile.read_metadata(os.path.join(d,'complete_plain.tdms'))
    m2 = TdmsFile.read_metadata(p3)
    f1 = [(c.path, str(c.data_type), len(c), dict(c.properties)) for g in m1.groups() for c in g.channels()]
    f2 = [(c.path, str(c.data_type), len(c), dict(c.properties)) for g in m2.groups() for c in g.channels()]
    print('index-only metadata equal:', f1 == f2, f2)
    with TdmsFile.open(p3) as f:
        for g in f.groups():
            for c in g.channels():
                for name, fn in (('read_data', lambda c: c.read_data()), ('neg', lambda c: c.read_data(-1)), ('slice', lambda c: c[:]), ('idx', lambda c: c[0])):
                    try:
                        print(c.path, name, 'RETURNED', fn(c))
                    except Exception as ex:
                        print(c.path, name, type(ex).__name__, ex)
