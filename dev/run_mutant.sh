#!/bin/bash
# usage: dev/run_mutant.sh <worktree> <mutant-dir> <check-id>...   (runs the checks against the worktree with the patch applied)
# Development aid for validating seeded bugs; not registered in MANIFEST.json.
wt="$1"; md="$2"; shift 2
cd "$wt" || exit 2
git checkout -q -- . ; git apply "$md/patch.diff" || { echo "PATCH DOES NOT APPLY"; exit 2; }
echo "== demo with patch:"; PYTHONPATH="$wt" /venv/bin/python "$md/demo.py" >/tmp/demo_out.$$ 2>&1; echo "   exit=$? (expect non-zero)"; tail -2 /tmp/demo_out.$$
if [ -n "$RUN_TESTS" ]; then echo "== tests with patch:"; /venv/bin/python -m pytest -q -p no:cacheprovider -x nptdms/test 2>&1 | tail -1; fi
for id in "$@"; do
  echo "== check $id against mutant:"
  ( cd "${VERIF_DIR:-/verif}" && NPTDMS_REPO="$wt" timeout 900 ./check "$id" >/tmp/chk_out.$$ 2>&1; echo "   exit=$?"; tail -4 /tmp/chk_out.$$; rm -f /tmp/chk_out.$$ )
done
git checkout -q -- .
echo "== demo without patch:"; PYTHONPATH="$wt" /venv/bin/python "$md/demo.py" >/tmp/demo_out.$$ 2>&1; echo "   exit=$? (expect 0)"; rm -f /tmp/demo_out.$$
