import sys, numpy as np
sys.path.insert(0,'/repo')
from nptdms import thermocouples as tc
types = {k: getattr(tc,'type_'+k) for k in 'bejknrst'}
frange = {'b':(22,1820),'e':(-270,1000),'j':(-210,1200),'k':(-270,1372),'n':(-270,1300),'r':(-50,1768.1),'s':(-50,1768.1),'t':(-270,400)}
inv = {
 'b':[(250,700,-0.02,0.03),(700,1820,-0.01,0.02)],
 'e':[(-200,0,-0.01,0.03),(0,1000,-0.02,0.02)],
 'j':[(-210,0,-0.05,0.03),(0,760,-0.04,0.04),(760,1200,-0.04,0.03)],
 'k':[(-200,0,-0.02,0.04),(0,500,-0.05,0.04),(500,1372,-0.05,0.06)],
 'n':[(-200,0,-0.02,0.03),(0,600,-0.02,0.03),(600,1300,-0.04,0.02)],
 'r':[(-50,250,-0.02,0.02),(250,1064.18,-0.005,0.005),(1064.18,1664.5,-0.0005,0.001),(1664.5,1768.1,-0.001,0.002)],
 's':[(-50,250,-0.02,0.02),(250,1064.18,-0.01,0.01),(1064.18,1664.5,-0.0002,0.0002),(1664.5,1768.1,-0.002,0.002)],
 't':[(-200,0,-0.02,0.04),(0,400,-0.03,0.03)],
}
def unit(x):
    s = repr(abs(x)); d = len(s.split('.')[1]) if '.' in s else 0
    return 10.0**-d
def R(x): # exact hex real
    return "(%s)" % float(x).hex() if x>=0 else "(-%s)" % float(-x).hex()
def horner(cs, v):
    s = R(cs[-1])
    for c in reversed(cs[:-1]): s = "(%s + %s * %s)" % (R(c), v, s)
    return s
def dhorner(cs, v):
    dc = [i*c for i,c in enumerate(cs)][1:]
    # note: i*c may round; emit as product
    terms = ["(%d * %s)" % (i, R(c)) for i,c in enumerate(cs)][1:]
    s = terms[-1]
    for t in reversed(terms[:-1]): s = "(%s + %s * %s)" % (t, v, s)
    return s
out = {}
for k,t in types.items():
    L = ["From Coq Require Import Reals.", "From Interval Require Import Tactic.", "Open Scope R_scope."]
    fps = t._forward_polynomials; ips = t._inverse_polynomials
    lo,hi = frange[k]
    def fexpr(p, v):
        e = horner(p._coefficients, v)
        if t._exponential_term and (p.applicable_range.start is not None and p.applicable_range.start>=0):
            a0,a1,a2 = t._exponential_term
            e = "(%s + %s * exp (%s * ((%s - %s) * (%s - %s))))" % (e, R(a0), R(a1), v, R(a2), v, R(a2))
        return e
    def dfexpr(p, v):
        e = dhorner(p._coefficients, v)
        if t._exponential_term and (p.applicable_range.start is not None and p.applicable_range.start>=0):
            a0,a1,a2 = t._exponential_term
            e = "(%s + %s * exp (%s * ((%s - %s) * (%s - %s))) * (2 * %s * (%s - %s)))" % (e, R(a0), R(a1), v, R(a2), v, R(a2), R(a1), v, R(a2))
        return e
    for i,p in enumerate(fps):
        a = lo if p.applicable_range.start is None else max(lo,p.applicable_range.start)
        b = hi if p.applicable_range.end is None else min(hi,p.applicable_range.end)
        L.append("Lemma mono_%s_%d : forall t, %s <= t <= %s -> %s > 0." % (k,i,R(a),R(b),dfexpr(p,'t')))
        L.append("Proof. intros t Ht. Time interval with (i_bisect t, i_taylor t, i_prec 80, i_depth 40). Qed.")
    for i,(p,q) in enumerate(zip(fps,fps[1:])):
        bnd = p.applicable_range.end
        L.append("Lemma cont_%s_%d : Rabs (%s - %s) <= 1e-6." % (k,i,fexpr(p,R(bnd)),fexpr(q,R(bnd))))
        L.append("Proof. Time interval with (i_prec 120). Qed.")
    # inverse accuracy: for each spec range j, find inverse pieces overlapping; prove for each fwd piece x inverse piece on temp interval
    for j,(tl,th,el,eh) in enumerate(inv[k]):
        el2 = el-unit(el); eh2 = eh+unit(eh)
        # which inverse piece(s) can be selected for t in [tl,th]? use voltage range
        vlo = float(t.celsius_to_mv(np.array([float(tl)]))[0]); vhi=float(t.celsius_to_mv(np.array([float(th)]))[0])
        for ii,ip in enumerate(ips):
            s = -1e9 if ip.applicable_range.start is None else ip.applicable_range.start
            e = 1e9 if ip.applicable_range.end is None else ip.applicable_range.end
            if e <= vlo or s > vhi: continue
            # temperature sub-interval where this inverse piece is selected (approx, widened)
            xs = np.linspace(tl,th,200001); vs = t.celsius_to_mv(xs); m=(vs>=s)&(vs<e)
            if not m.any(): continue
            ta = max(tl, xs[m].min()-0.01); tb = min(th, xs[m].max()+0.01)
            for fi,fp in enumerate(fps):
                fa = -1e9 if fp.applicable_range.start is None else fp.applicable_range.start
                fb = 1e9 if fp.applicable_range.end is None else fp.applicable_range.end
                a = max(ta,fa); b = min(tb,fb)
                if a>=b: continue
                comp = horner(ip._coefficients, fexpr(fp,'t'))
                L.append("Lemma inv_%s_%d_%d_%d : forall t, %s <= t <= %s -> %s <= %s - t <= %s." % (k,j,ii,fi,R(a),R(b),R(el2),comp,R(eh2)))
                L.append("Proof. intros t Ht. Time interval with (i_bisect t, i_taylor t, i_prec 80, i_depth 50). Qed.")
    open("T_%s.v"%k,"w").write("\n".join(L)+"\n")
    print(k, sum(1 for l in L if l.startswith("Lemma")))
