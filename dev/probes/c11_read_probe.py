"""One-off probe (not a harness file): on random COMPLETE DAQmx files from c11's generator, evaluate in
Coq (a) that every segment satisfies daqmx_seg_ok_b and (b) that the theorem's right-hand side
expected_tokens_dq (direct addressing on each segment's raw data block) equals npTDMS's observation."""
import os, sys, random
sys.path.insert(0, os.path.join(os.path.dirname(os.path.dirname(os.path.dirname(os.path.abspath(__file__)))), "harness"))
import common as H
H.ensure_env()
import tdmsgen as G, daqmxgen as D, readerlib as R
import c11 as C
G.silence_logs()
rng = random.Random(int(os.environ.get("SEED", "1")))
N = int(os.environ.get("N", "150"))
cases, metas = [], []
for i in range(N):
    widths, rows, chans, segs = C.build(rng)
    data = G.ser_file(segs)
    impl, ex = G.read_eager(data)
    if impl is None:
        continue
    cases.append(R.case_all(data, impl)); metas.append((widths, rows, [ (c.path, c.dt, c.scalers, c.n) for c in chans]))
imports = R.READER_IMPORTS + "\nFrom NpTdms Require Import Proofs.DaqmxProofs Proofs.ReadCorrect Proofs.ReadCorrectDaqmx.\n"
defs = r'''
Definition block (g : segment) (data : bytes) : bytes := read_at (sg_data g) (sg_next g - sg_data g) data.
Definition probe (data : bytes) (o : option (list tok)) : bool * bool :=
  match rd_metadata data false (Some (blen data)) false with
  | Ok st =>
    match build_hierarchy (rs_om st) with
    | Ok h =>
      (forallb (fun g => daqmx_seg_ok_b g (block g data)) (rs_segments st),
       match o with
       | Some t => toks_eqb (expected_tokens_dq st h (List.concat (map (fun g => direct_chunks g (block g data)) (rs_segments st)))) t
       | None => false
       end)
    | Err _ => (false, false)
    end
  | Err _ => (false, false)
  end.
'''
bad_ok, err1 = H.run_sharded("C11", imports, "bytes * option (list tok)", "(fun c => fst (probe (fst c) (snd c)))", cases, shard=40, extra_defs=defs, tag="probe_ok")
bad_eq, err2 = H.run_sharded("C11", imports, "bytes * option (list tok)", "(fun c => snd (probe (fst c) (snd c)))", cases, shard=40, extra_defs=defs, tag="probe_eq")
print("files:", len(cases), "errors:", [e[1][-500:] for e in err1 + err2])
print("segments failing daqmx_seg_ok_b in files:", bad_ok)
print("files where direct-addressing RHS != npTDMS observation:", bad_eq)
for i in bad_ok[:5]:
    print(metas[i])
