import random, struct, io, sys, traceback, warnings
import numpy as np
from enc import *
from nptdms import TdmsFile
import logging; logging.disable(logging.CRITICAL)
warnings.simplefilter('ignore')
TYPES = {1:('i1',1),2:('i2',2),3:('i4',4),4:('i8',8),5:('u1',1),6:('u2',2),7:('u4',4),8:('u8',8),9:('f4',4),10:('f8',8),0x21:('?',1),0x44:(None,16),0x20:(None,None),0x08000c:('c8',8),0x10000d:('c16',16)}
def rand_vals(rng, t, n):
    if t==0x20: return [''.join(rng.choice('abé') for _ in range(rng.randint(0,3))) for _ in range(n)]
    if t==0x44: return [(rng.randint(-5,4*10**9), rng.randint(0,2**64-1)) for _ in range(n)]
    return [bytes(rng.randint(0,255) for _ in range(TYPES[t][1])) if t not in (9,10,0x08000c,0x10000d,0x21) else (bytes([rng.randint(0,1)]) if t==0x21 else struct.pack('<'+{9:'f',10:'d',0x08000c:'ff',0x10000d:'dd'}[t], *([rng.uniform(-1e3,1e3)]*(2 if t>1000 else 1)))) for _ in range(n)]
def enc_val(t, v, e):
    if t==0x44: return struct.pack('<Qq',v[1],v[0]) if e=='<' else struct.pack('>qQ',v[0],v[1])
    if e=='<': return v
    if t in (0x08000c,0x10000d): h=len(v)//2; return v[:h][::-1]+v[h:][::-1]
    return v[::-1]
def gen_file(rng, allow_str=True, nseg=None):
    chans = ["/'g'/'c%d'"%i for i in range(rng.randint(1,3))]
    ctype = {c: rng.choice([t for t in TYPES if allow_str or t!=0x20]) for c in chans}
    expect = {c: [] for c in chans}
    out=b''; segs=[]
    for si in range(nseg or rng.randint(1,4)):
        e = rng.choice('<<<>')
        active = [c for c in chans if rng.random()<0.8] or [chans[0]]
        inter = rng.random()<0.35 and all(ctype[c]!=0x20 for c in active)
        n = {c: rng.randint(0,4) for c in active}
        if inter:
            nn = rng.randint(1,4); n = {c: nn for c in active}
        nch = rng.randint(1,3)
        objs=[]; 
        for c in active:
            t=ctype[c]
            objs.append((c,t,n[c]))
        data=b''; metas=[]
        chunks=[]
        for k in range(nch):
            vals = {c: rand_vals(rng, ctype[c], n[c]) for c in active}
            chunks.append(vals)
        # string total size must be same across chunks -> make strings chunk-constant sized: reuse first chunk's strings lengths
        for c in active:
            if ctype[c]==0x20:
                for k in range(1,nch):
                    chunks[k][c] = [s[::-1] if len(s.encode())==len(s[::-1].encode()) else s for s in chunks[0][c]]
        for k in range(nch):
            vals=chunks[k]
            if inter:
                for r in range(n[active[0]]):
                    for c in active: data += enc_val(ctype[c], vals[c][r], e)
            else:
                for c in active:
                    t=ctype[c]
                    if t==0x20:
                        bs=[s.encode() for s in vals[c]]; off=0
                        for b in bs: off+=len(b); data+=struct.pack(e+'L',off)
                        data+=b''.join(bs)
                    else:
                        for v in vals[c]: data+=enc_val(t,v,e)
            for c in active: expect[c].extend(vals[c])
        for c in active:
            t=ctype[c]
            if t==0x20:
                tot = sum(4+len(s.encode()) for s in chunks[0][c])
                metas.append(obj(c,(0x20,n[c],tot),e=e))
            else: metas.append(obj(c,(t,n[c]),e=e))
        toc = 0b1110 | ((1<<5) if inter else 0)
        sb = seg(metas, data, toc=toc, e=e)
        segs.append((len(out), len(sb), len(sb)-len(data)))
        out += sb
    return out, expect, ctype, segs
def canon(ctype, c, arr):
    t=ctype[c]
    if t==0x20: return list(arr)
    if t==0x44: return [(int(x.seconds), int(x.second_fractions)) for x in arr]
    a=np.asarray(arr); a=a.astype(a.dtype.newbyteorder('<'))
    sz=TYPES[t][1]; b=a.tobytes(); return [b[i*sz:(i+1)*sz] for i in range(len(a))]
if __name__=='__main__':
    seed=int(sys.argv[1]); N=int(sys.argv[2]); rng=random.Random(seed); bad=0
    for it in range(N):
        f, expect, ctype, segs = gen_file(rng)
        try:
            t = TdmsFile.read(io.BytesIO(f), raw_timestamps=True)
            for c in expect:
                g,ch = 'g', c.split("'")[3]
                got = canon(ctype,c,t[g][ch][:]) if (g in t and ch in t[g]) else None
                if got != expect[c] and not (got is None and expect[c]==[]):
                    bad+=1; print("C01 MISMATCH", it, c, hex(ctype[c]), got, expect[c]); break
        except Exception as ex:
            bad+=1; print("C01 EXC", it, type(ex).__name__, ex, {c:hex(t) for c,t in ctype.items()})
    print("done", N, "bad", bad)
