# inheritance encodings: int32/int16 channels only, contiguous; spec 'expand' in python vs npTDMS
import random, io, sys, struct, itertools
import numpy as np
from enc import *
from nptdms import TdmsFile
import logging; logging.disable(logging.CRITICAL)
SZ={3:4,2:2}
def run(seed,N):
    rng=random.Random(seed); kinds={}
    def rec(k, info): kinds.setdefault(k,[]).append(info)
    for it in range(N):
        chans=["/'g'/'a'","/'g'/'b'","/'g'/'c'"][:rng.randint(1,3)]
        ctype={c:rng.choice([3,2]) for c in chans}
        active=[]          # list of [path, has_data, nvals]
        lastidx={}         # path -> nvals (most recent definition)
        f=b''; expect={c:[] for c in chans}; seen=set(); desc=[]
        counter=[0]
        ok=True
        for si in range(rng.randint(1,5)):
            meta = rng.random()<0.8 or si==0
            if not meta:
                newactive=[list(x) for x in active]; objs=None; toc=0b1000; d=("nometa",)
            else:
                newlist = rng.random()<0.4 or si==0
                base = [] if newlist else [list(x) for x in active]
                objs=[]; listed=[]
                for c in rng.sample(chans, rng.randint(0,len(chans))):
                    forms=['full','nodata']
                    if c in lastidx: forms.append('prev')
                    form=rng.choice(forms)
                    if form=='full':
                        n=rng.randint(0,3); objs.append(obj(c,(ctype[c],n))); lastidx[c]=n; ent=[c,True,n]
                    elif form=='prev':
                        objs.append(obj(c,'prev')); ent=[c,True,lastidx[c]]
                    else:
                        objs.append(obj(c,None)); ent=[c,False,lastidx.get(c,0)]
                    listed.append((c,form))
                    idx=[i for i,x in enumerate(base) if x[0]==c]
                    if idx: base[idx[0]]=ent
                    else: base.append(ent)
                newactive=base; toc=0b1010|(0b100 if newlist else 0); d=("meta",newlist,listed)
            active=newactive
            for x in active: seen.add(x[0])
            nch=rng.randint(0,2)
            csize=sum(SZ[ctype[x[0]]]*x[2] for x in active if x[1])
            if csize==0: nch=0
            data=b''
            for k in range(nch):
                for x in active:
                    if x[1]:
                        vals=[counter[0]+i for i in range(x[2])]; counter[0]+=x[2]
                        vals=[v%30000 for v in vals]
                        data+=np.array(vals,dtype={3:'<i4',2:'<i2'}[ctype[x[0]]]).tobytes(); expect[x[0]].extend(vals)
            if not data: toc &= ~0b1000
            f+=seg(objs,data,toc=toc); desc.append((d,nch))
        try:
            t=TdmsFile.read(io.BytesIO(f))
        except Exception as ex:
            rec("eager_exc:"+type(ex).__name__+":"+str(ex)[:60],(it,desc)); continue
        for c in chans:
            ch=c.split("'")[3]
            if c not in seen:
                if 'g' in t and ch in t['g']: rec("unexpected_channel",(it,c))
                continue
            if 'g' not in t or ch not in t['g']: rec("missing_channel",(it,c,desc)); continue
            got=[int(v) for v in t['g'][ch][:]]
            if got!=expect[c]: rec("eager_mismatch",(it,c,got,expect[c],desc))
        try:
            with TdmsFile.open(io.BytesIO(f)) as tl:
                for c in chans:
                    ch=c.split("'")[3]
                    if c in seen:
                        got=[int(v) for v in tl['g'][ch][:]]
                        if got!=expect[c]: rec("lazy_mismatch",(it,c,got,expect[c],desc))
        except Exception as ex: rec("lazy_exc:"+type(ex).__name__+":"+str(ex)[:60],(it,desc))
    for kk,v in sorted(kinds.items(), key=lambda kv:-len(kv[1])): print(len(v), kk, v[:2])
    print("done")
run(int(sys.argv[1]), int(sys.argv[2]))
