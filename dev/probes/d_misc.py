from enc import *
import numpy as np, traceback, struct
from nptdms import TdmsFile, TdmsWriter, ChannelObject, RootObject, GroupObject
def i32(*v): return np.array(v,dtype=np.int32).tobytes()
print("--- C03: no data type channel, eager read_data")
f = seg([obj("/'g'/'a'",(3,2)), obj("/'g'/'n'",None)], i32(1,2))
t = TdmsFile.read(io.BytesIO(f))
print(t['g']['n'][:], t['g']['n'].dtype)
try: print(t['g']['n'].read_data())
except Exception as ex: print("EXC", type(ex).__name__, ex)
print("--- C05: file-level data_chunks interleaved with other reads")
f = seg([obj("/'g'/'a'",(3,2)), obj("/'g'/'b'",(3,2))], i32(1,2,10,20, 3,4,30,40, 5,6,50,60))
with TdmsFile.open(io.BytesIO(f)) as t:
    out=[]
    for ch in t.data_chunks():
        out.append(list(ch['g']['a'][:]))
        t['g']['b'][0]
    print(out)
print("--- C08: string raw index length")
b = io.BytesIO()
with TdmsWriter(b) as w: w.write_segment([ChannelObject('g','s',['ab','c'])])
raw = b.getvalue(); i = raw.find(b"/'g'/'s'"); print(raw[i+8:i+8+4].hex(), len(raw))
print("--- C10: defragment with no-type channel / empty string channel")
f = seg([obj("/'g'/'a'",(3,2)), obj("/'g'/'n'",None)], i32(1,2))
try: TdmsWriter.defragment(io.BytesIO(f), io.BytesIO()); print("ok")
except Exception as ex: print("EXC", type(ex).__name__, ex)
f = seg([obj("/'g'/'a'",(3,2)), obj("/'g'/'s'",(0x20,0,0))], i32(1,2))
try: TdmsWriter.defragment(io.BytesIO(f), io.BytesIO()); print("ok")
except Exception as ex: print("EXC", type(ex).__name__, ex)
f = seg([obj("/'g'/'a'",(3,2)), obj("/'g'/'s'",(0x44,0))], i32(1,2))
try: TdmsWriter.defragment(io.BytesIO(f), io.BytesIO()); print("ok")
except Exception as ex: print("EXC", type(ex).__name__, ex)
print("--- C14: float32 linear")
props=[("NI_Scale[0]_Scale_Type",0x20,s("Linear")),("NI_Scale[0]_Linear_Slope",10,struct.pack('<d',2.0)),("NI_Scale[0]_Linear_Y_Intercept",10,struct.pack('<d',1.0)),("NI_Number_Of_Scales",7,struct.pack('<L',1))]
f = seg([obj("/'g'/'a'",(9,2),props)], np.array([1,2],dtype=np.float32).tobytes())
t = TdmsFile.read(io.BytesIO(f)); c=t['g']['a']; print(c.dtype, c[:].dtype, c[:])
with TdmsFile.open(io.BytesIO(f)) as t: c=t['g']['a']; print(c.dtype, c[:].dtype, c[0:0].dtype)
