import random, io, sys, os, tempfile, shutil
from fuzz1 import *
def run(seed,N):
    rng=random.Random(seed); kinds={}
    def rec(k, info): kinds.setdefault(k,[]).append(info)
    d=tempfile.mkdtemp(dir='/tmp/scratch')
    try:
        for it in range(N):
            f, expect, ctype, segs = gen_file(rng)
            cut = rng.random()<0.3
            idx=b''.join(b'TDSh'+f[p+4:p+dp] for (p,l,dp) in segs)
            if cut:
                p,l,dp=segs[-1]
                if l>dp: f=f[:p+dp+rng.randint(0,l-dp-1)]
            pth=os.path.join(d,'x.tdms'); open(pth,'wb').write(f)
            ip=pth+'_index'
            if os.path.exists(ip): os.unlink(ip)
            def obs(mode):
                try:
                    if mode=='read': t=TdmsFile.read(pth, raw_timestamps=True)
                    elif mode=='open': t=TdmsFile.open(pth, raw_timestamps=True)
                    else: t=TdmsFile.read_metadata(pth, raw_timestamps=True)
                    out={}
                    for g in t.groups():
                        for ch in g.channels():
                            c=ch.path
                            out[c]=(len(ch), str(ch.dtype), None if mode=='meta' else canon(ctype,c,ch[:]))
                    st=t.file_status; out['_st']=(st.incomplete_final_segment, None if st.channel_statuses is None else sorted((k,v.expected_length,v.read_length) for k,v in st.channel_statuses.items()))
                    t.close()
                    return out
                except AttributeError as ex: return 'D1'
                except Exception as ex: return 'EXC:'+type(ex).__name__+':'+str(ex)[:60]
            base={m:obs(m) for m in ('read','open','meta')}
            open(ip,'wb').write(idx)
            withi={m:obs(m) for m in ('read','open','meta')}
            for m in base:
                if base[m]!=withi[m]: rec("index_changes_"+m,(it,cut,str(base[m])[:150],str(withi[m])[:150]))
            # index only
            try:
                t=TdmsFile.read(ip, raw_timestamps=True)
                io_={ch.path:(len(ch),str(ch.dtype)) for g in t.groups() for ch in g.channels()}
                if not cut and base['meta'] not in ('D1',) and not isinstance(base['meta'],str):
                    b={k:(v[0],v[1]) for k,v in base['meta'].items() if k!='_st'}
                    if b!=io_: rec("index_only_differs",(it,b,io_))
                for g in t.groups():
                    for ch in g.channels():
                        if len(ch)>0:
                            try: ch[:]; rec("index_only_data_returned",(it,ch.path))
                            except RuntimeError: pass
                            except Exception as ex: rec("index_only_data_exc:"+type(ex).__name__,(it,))
            except Exception as ex: rec("index_only_exc:"+type(ex).__name__+":"+str(ex)[:60],(it,))
    finally: shutil.rmtree(d)
    for kk,v in sorted(kinds.items(), key=lambda kv:-len(kv[1])): print(len(v), kk, v[:2])
    print("done")
run(int(sys.argv[1]), int(sys.argv[2]))
