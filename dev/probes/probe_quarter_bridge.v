From Coq Require Import Reals Lra Psatz.
Open Scope R_scope.
Lemma quarter G Vex e : G <> 0 -> Vex <> 0 -> 2 + e*G <> 0 ->
  let Vo := (1/(2+e*G) - 1/2) * Vex in
  (/ (Vo * (2 / Vex) + 1) - 1) * (2 * 1 / (G * 1)) = e.
Proof. intros HG HV Hd Vo. unfold Vo.
  replace ((1 / (2 + e * G) - 1 / 2) * Vex * (2 / Vex) + 1) with (2 / (2 + e*G)) by (field; split; assumption).
  field. split; assumption. Qed.
