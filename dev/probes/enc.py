import struct, io
def s(x, e='<'): b=x.encode('utf-8'); return struct.pack(e+'L',len(b))+b
def obj(path, idx=None, props=(), e='<'):
    # idx: None -> no data; 'prev' -> matches previous; (dtype, n) or (0x20, n, total)
    out = s(path,e)
    if idx is None: out += struct.pack(e+'L',0xFFFFFFFF)
    elif idx=='prev': out += struct.pack(e+'L',0)
    else:
        if idx[0]==0x20: out += struct.pack(e+'LLLQQ',28,0x20,1,idx[1],idx[2])
        else: out += struct.pack(e+'LLLQ',20,idx[0],1,idx[1])
    out += struct.pack(e+'L',len(props))
    for (n,t,v) in props:
        out += s(n,e)+struct.pack(e+'L',t)+v
    return out
def seg(objs, data, toc=0b1110, e='<', nso=None, version=4713):
    if e=='>': toc |= 1<<6
    meta = b'' if objs is None else struct.pack(e+'L',len(objs))+b''.join(objs)
    n = len(meta)+len(data) if nso is None else nso
    return b'TDSm'+struct.pack('<l',toc)+struct.pack(e+'lQQ',version,n,len(meta))+meta+data
