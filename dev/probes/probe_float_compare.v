From Coq Require Import ZArith Bool PrimFloat FloatAxioms SpecFloat FloatOps.
Open Scope float_scope.
Lemma SFcompare_swap x y :
  SFcompare y x = match SFcompare x y with Some c => Some (CompOpp c) | None => None end.
Proof.
  destruct x as [sx|sx| |sx mx ex], y as [sy|sy| |sy my ey]; try destruct sx; try destruct sy; simpl; try reflexivity.
  all: rewrite (Z.compare_antisym ex ey); destruct (ex ?= ey)%Z eqn:E; simpl; try reflexivity.
  all: unfold Pos.compare; rewrite (Pos.compare_cont_antisym mx my Eq); simpl; destruct (Pos.compare_cont Eq mx my); reflexivity.
Qed.
Definition sf_nan (x : spec_float) := match x with S754_nan => true | _ => false end.
Lemma SFcompare_total x y : sf_nan x = false -> sf_nan y = false -> SFcompare x y <> None.
Proof. destruct x, y; simpl; try discriminate; intros; try destruct s; try destruct s0; try discriminate.
  all: destruct (e ?= e0)%Z; try discriminate. Qed.
Lemma ltb_false_leb x e :
  sf_nan (Prim2SF x) = false -> sf_nan (Prim2SF e) = false -> (x <? e) = false -> (e <=? x) = true.
Proof.
  intros Hx He. rewrite ltb_spec, leb_spec. unfold SFltb, SFleb.
  rewrite (SFcompare_swap (Prim2SF x) (Prim2SF e)).
  pose proof (SFcompare_total _ _ Hx He) as Ht.
  destruct (SFcompare (Prim2SF x) (Prim2SF e)) as [[]|]; simpl; congruence.
Qed.
Print Assumptions ltb_false_leb.
