import numpy as np, io
from nptdms.types import TimeStamp
from nptdms.timestamp import TdmsTimestamp
bad=0
first=[]
base=np.datetime64('2020-01-01T00:00:16','us')
for us in range(1000000):
    v = base + np.timedelta64(us,'us')
    b = TimeStamp(v).bytes
    t = TimeStamp.read(io.BytesIO(b))
    r = t.as_datetime64('us')
    if r != v:
        bad+=1
        if len(first)<5: first.append((us, str(r), t.second_fractions))
print(bad, first)
print(repr(TimeStamp._fractions_per_microsecond), (10**-6)/2**-64)
