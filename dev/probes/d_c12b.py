import numpy as np
fps = (10**-6)/2**-64
us = np.arange(1000000, dtype=np.uint64)
# ceil encode, exact
enc = np.array([-((-int(u) * 2**64) // 10**6) for u in range(1000000)], dtype=np.uint64)
dec = ((enc / fps) * np.timedelta64(1,'us')).astype('int64')
print("ceil-encode + float-decode failures:", int((dec != us.astype('int64')).sum()))
# round-to-nearest encode
enc2 = np.array([(int(u) * 2**64 + 500000) // 10**6 for u in range(1000000)], dtype=np.uint64)
dec2 = ((enc2 / fps) * np.timedelta64(1,'us')).astype('int64')
print("nearest-encode + float-decode failures:", int((dec2 != us.astype('int64')).sum()))
# scalar path check (python int / float)
bad=0
for u in range(1000000):
    e=int(enc[u]); 
    d = int((e / fps))
    if d!=u: bad+=1
print("scalar ceil failures", bad)
