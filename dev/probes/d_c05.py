from enc import *
import numpy as np
from nptdms import TdmsFile
def i32(*v): return np.array(v,dtype=np.int32).tobytes()
f = seg([obj("/'g'/'a'",(3,2)), obj("/'g'/'b'",(3,2))], i32(1,2,10,20, 3,4,30,40, 5,6,50,60))
with TdmsFile.open(io.BytesIO(f)) as t:
    out=[]
    for ch in t.data_chunks():
        out.append([int(x) for x in ch['g']['a'][:]])
        t['g']['a'][0]
        t['g']['b'][5]
    print(out)
