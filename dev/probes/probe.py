import sys, numpy as np
sys.path.insert(0,'/repo')
from nptdms import thermocouples as tc
types = {k: getattr(tc,'type_'+k) for k in 'bejknrst'}
# NIST forward ranges (deg C)
frange = {'b':(0,1820),'e':(-270,1000),'j':(-210,1200),'k':(-270,1372),'n':(-270,1300),'r':(-50,1768.1),'s':(-50,1768.1),'t':(-270,400)}
# inverse: list of (tlo, thi, errlo, errhi)
inv = {
 'b':[(250,700,-0.02,0.03),(700,1820,-0.01,0.02)],
 'e':[(-200,0,-0.01,0.03),(0,1000,-0.02,0.02)],
 'j':[(-210,0,-0.05,0.03),(0,760,-0.04,0.04),(760,1200,-0.04,0.03)],
 'k':[(-200,0,-0.02,0.04),(0,500,-0.05,0.04),(500,1372,-0.05,0.06)],
 'n':[(-200,0,-0.02,0.03),(0,600,-0.02,0.03),(600,1300,-0.04,0.02)],
 'r':[(-50,250,-0.02,0.02),(250,1064.18,-0.005,0.005),(1064.18,1664.5,-0.0005,0.001),(1664.5,1768.1,-0.001,0.002)],
 's':[(-50,250,-0.02,0.02),(250,1064.18,-0.01,0.01),(1064.18,1664.5,-0.0002,0.0002),(1664.5,1768.1,-0.002,0.002)],
 't':[(-200,0,-0.02,0.04),(0,400,-0.03,0.03)],
}
for k,t in types.items():
    lo,hi = frange[k]
    x = np.linspace(lo,hi,400001)
    v = t.celsius_to_mv(x)
    d = np.diff(v)
    back = t.mv_to_celsius(v)
    print(k, "fwd range mV", v.min(), v.max(), "min dv", d.min(), "argmin t", x[d.argmin()])
    for (tl,th,el,eh) in inv[k]:
        m = (x>=tl)&(x<=th)
        e = back[m]-x[m]
        print("    inv", tl,th, "err min/max %.5f %.5f"%(e.min(), e.max()), "stated", el, eh, "OK" if e.min()>=el-1e-9 and e.max()<=eh+1e-9 else "EXCEEDS")
    # boundaries continuity forward
    fp = t._forward_polynomials
    for a,b in zip(fp,fp[1:]):
        bnd = a.applicable_range.end
        va = a.apply(np.array([bnd]))[0]; vb = b.apply(np.array([bnd]))[0]
        if t._exponential_term and bnd>=0:
            a0,a1,a2=t._exponential_term; vb += a0*np.exp(a1*(bnd-a2)**2)
        print("    fwd boundary", bnd, "gap", vb-va)
    ip = t._inverse_polynomials
    print("    inverse boundaries (mV):", [p.applicable_range.end for p in ip[:-1]], "fwd at piece temps:", [float(t.celsius_to_mv(np.array([float(th)]))[0]) for (_,th,_,_) in inv[k][:-1]])
