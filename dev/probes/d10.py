from enc import *
import numpy as np, struct
from nptdms import TdmsFile
import logging; logging.disable(logging.CRITICAL)
def strs(l): 
    b=[x.encode() for x in l]; off=0; out=b''
    for x in b: off+=len(x); out+=struct.pack('<L',off)
    return out+b''.join(b)
chunk = strs(['ab','c']) + np.array([1,2],dtype=np.uint16).tobytes()
f = seg([obj("/'g'/'s'",(0x20,2,len(strs(['ab','c'])))), obj("/'g'/'n'",(6,2))], chunk+chunk)
g = f[:-3]
t = TdmsFile.read(io.BytesIO(g)); print("eager", list(t['g']['s'][:]), t['g']['n'][:])
with TdmsFile.open(io.BytesIO(g)) as t:
    print("lazy s", list(t['g']['s'][:]))
    try: print("lazy n", t['g']['n'][:])
    except Exception as ex: print("lazy n EXC", type(ex).__name__, ex)
