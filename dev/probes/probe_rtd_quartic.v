From Coq Require Import Reals Lra Lia Psatz.
Open Scope R_scope.
Lemma quartic_deriv_pos A B C t : A > 0 -> B < 0 -> C < 0 -> t <= 0 ->
  A + 2*B*t - 300*C*t*t + 4*C*t*t*t > 0.
Proof. intros HA HB HC Ht.
  assert (H1 : 0 <= B*t) by nra. assert (H2 : 0 <= t*t) by nra.
  assert (H3 : 0 <= C*t) by nra. assert (H4 : 0 <= (C*t)*(t*t)) by (apply Rmult_le_pos; assumption).
  assert (H5 : 0 <= -C*(t*t)) by nra. nra. Qed.
(* RTD quadratic branch *)
Lemma rtd_pos R0 A B T :
  R0 > 0 -> B < 0 -> A + 2*B*T > 0 ->
  let rt := R0 * (1 + A*T + B*T*T) in
  (-A + sqrt (A*A - 4*B*(1 - rt/R0))) / (2*B) = T.
Proof.
  intros HR HB Hv rt. unfold rt.
  replace (A*A - 4*B*(1 - R0*(1 + A*T + B*T*T)/R0)) with ((A + 2*B*T)*(A + 2*B*T)) by (field; lra).
  rewrite sqrt_square by lra. field. lra.
Qed.
