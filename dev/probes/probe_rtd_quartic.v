From Coq Require Import Reals Lra Lia Psatz.
Open Scope R_scope.
Lemma quartic_deriv_pos A B C t : A > 0 -> B < 0 -> C < 0 -> t <= 0 ->
  A + 2*B*t - 300*C*t*t + 4*C*t*t*t > 0.
Proof. intros HA HB HC Ht.
  assert (H1 : 0 <= B*t) by nra. assert (H2 : 0 <= t*t) by nra.
  assert (H3 : 0 <= C*t) by nra. assert (H4 : 0 <= (C*t)*(t*t)) by (apply Rmult_le_pos; assumption).
  assert (H5 : 0 <= -C*(t*t)) by nra. nra. Qed.
(* quarter bridge as the code computes it: strain = ((1/(Vo*(2/Vex)+1)) - 1) * (2*gain/(G*lead)) with gain=lead=1 *)
Lemma quarter G Vex e : G <> 0 -> Vex <> 0 -> 2 + e*G <> 0 ->
  let Vo := (1/(2+e*G) - 1/2) * Vex in
  (/ (Vo * (2 / Vex) + 1) - 1) * (2 * 1 / (G * 1)) = e.
Proof. intros HG HV Hd Vo. unfold Vo. field. repeat split; auto.
  (* remaining side condition: the reciprocal's argument is non-zero *)
  all: try lra.
Admitted.
