from enc import *
import numpy as np, struct, traceback
from nptdms import TdmsFile
def i32(*v): return np.array(v,dtype=np.int32).tobytes()
print("--- index-only with unknown-length marker")
f = seg([obj("/'g'/'a'",(3,2))], i32(1,2), nso=0xFFFFFFFFFFFFFFFF)
idx = b'TDSh'+f[4:28]+f[28:28+ (len(f)-28-8)]
try:
    t = TdmsFile.read_metadata(io.BytesIO(idx)); print(len(t['g']['a']))
except Exception as ex: print("EXC", type(ex).__name__, ex)
print("--- NoOp (AdvancedAPI) scale reading a Linear scale: declared vs actual dtype")
props=[("NI_Number_Of_Scales",7,struct.pack('<L',2)),
 ("NI_Scale[0]_Scale_Type",0x20,s("Linear")),("NI_Scale[0]_Linear_Slope",10,struct.pack('<d',2.0)),("NI_Scale[0]_Linear_Y_Intercept",10,struct.pack('<d',1.0)),
 ("NI_Scale[1]_Scale_Type",0x20,s("AdvancedAPI")),("NI_Scale[1]_AdvancedAPI_Input_Source",7,struct.pack('<L',0))]
f = seg([obj("/'g'/'a'",(3,2),props)], i32(1,2))
t = TdmsFile.read(io.BytesIO(f)); c=t['g']['a']; print(c.dtype, c[:].dtype, c[:])
print("--- scale cycle")
props=[("NI_Number_Of_Scales",7,struct.pack('<L',1)),
 ("NI_Scale[0]_Scale_Type",0x20,s("Linear")),("NI_Scale[0]_Linear_Slope",10,struct.pack('<d',2.0)),("NI_Scale[0]_Linear_Y_Intercept",10,struct.pack('<d',1.0)),("NI_Scale[0]_Linear_Input_Source",7,struct.pack('<L',0))]
f = seg([obj("/'g'/'a'",(3,2),props)], i32(1,2))
t = TdmsFile.read(io.BytesIO(f)); c=t['g']['a']
try: print(c[:])
except BaseException as ex: print("EXC", type(ex).__name__)
