import random, io, sys, warnings
import numpy as np
from fuzz1 import *
def eq(a,b):
    return a==b
def run(seed,N):
    rng=random.Random(seed); kinds={}
    def rec(k, info):
        kinds.setdefault(k,[]).append(info)
    for it in range(N):
        f, expect, ctype, segs = gen_file(rng)
        try: te = TdmsFile.read(io.BytesIO(f), raw_timestamps=True)
        except AttributeError: continue
        full = {}
        for c in expect:
            ch=c.split("'")[3]
            if ch in te['g']: full[c]=canon(ctype,c,te['g'][ch][:])
        with TdmsFile.open(io.BytesIO(f), raw_timestamps=True) as tl:
            for c in full:
                ch=tl['g'][c.split("'")[3]]; n=len(full[c])
                try:
                    if canon(ctype,c,ch[:])!=full[c]: rec("lazy_full", (it,c))
                    if [x for chunk in ch.data_chunks() for x in canon(ctype,c,chunk[:])]!=full[c]: rec("chan_chunks",(it,c))
                except Exception as ex: rec("lazy_full_exc:"+type(ex).__name__+":"+str(ex)[:60],(it,c,hex(ctype[c])))
                for off in range(0,n+2):
                    for ln in list(range(0,n+2))+[None]:
                        try:
                            r=canon(ctype,c,ch.read_data(off,ln))
                            exp=full[c][off:(None if ln is None else off+ln)]
                            if r!=exp: rec("window",(it,c,off,ln,len(r),len(exp)))
                        except Exception as ex: rec("window_exc:"+type(ex).__name__+":"+str(ex)[:50],(it,c,off,ln))
                for i in range(-n-1,n+1):
                    try:
                        v=ch[i]; 
                        ok = -n<=i<n
                        if not ok: rec("index_no_error",(it,c,i))
                    except IndexError:
                        if -n<=i<n: rec("index_error",(it,c,i))
                    except Exception as ex: rec("index_exc:"+type(ex).__name__+":"+str(ex)[:50],(it,c,i))
            # file-level chunks
            try:
                acc={c:[] for c in full}
                for chunk in tl.data_chunks():
                    for c in full:
                        cc=chunk['g'][c.split("'")[3]]
                        if cc.offset!=len(acc[c]): rec("file_chunk_offset",(it,c,cc.offset,len(acc[c])))
                        acc[c].extend(canon(ctype,c,cc[:]))
                for c in full:
                    if acc[c]!=full[c]: rec("file_chunks",(it,c))
            except Exception as ex: rec("file_chunks_exc:"+type(ex).__name__+":"+str(ex)[:60],(it,))
    for k,v in sorted(kinds.items(), key=lambda kv:-len(kv[1])): print(len(v), k, v[:3])
    print("done")
run(int(sys.argv[1]), int(sys.argv[2]))
