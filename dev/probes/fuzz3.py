import random, io, sys
from fuzz1 import *
def run(seed,N,marker=False):
    rng=random.Random(seed); kinds={}
    def rec(k, info): kinds.setdefault(k,[]).append(info)
    for it in range(N):
        f, expect, ctype, segs = gen_file(rng)
        if marker:
            # set last segment next offset to unknown marker
            pos,ln,dp = segs[-1]
            e = '>' if (f[pos+4] & 0x40) else '<'
            f = f[:pos+12]+b'\xff'*8+f[pos+20:]
        try: te = TdmsFile.read(io.BytesIO(f), raw_timestamps=True)
        except AttributeError: continue
        except Exception as ex:
            rec("full_exc:"+type(ex).__name__+":"+str(ex)[:60],(it,)); continue
        full={}
        for c in expect:
            ch=c.split("'")[3]
            if ch in te['g']: full[c]=canon(ctype,c,te['g'][ch][:])
        for k in range(4,len(f)+1):
            g=f[:k]
            # values of segments wholly before cut
            try:
                t=TdmsFile.read(io.BytesIO(g), raw_timestamps=True)
            except Exception as ex:
                rec("cut_exc:"+type(ex).__name__+":"+str(ex)[:70],(it,k,len(f),segs,{c:hex(x) for c,x in ctype.items()})); continue
            got={}
            for c in full:
                ch=c.split("'")[3]
                if 'g' in t and ch in t['g']:
                    chan=t['g'][ch]
                    try:
                        v=canon(ctype,c,chan[:]); got[c]=v
                    except Exception as ex:
                        rec("cut_data_exc:"+type(ex).__name__+":"+str(ex)[:60],(it,k,c)); continue
                    if v!=full[c][:len(v)]: rec("not_prefix",(it,k,c,hex(ctype[c])))
                    if len(chan)!=len(v): rec("len_mismatch",(it,k,c,hex(ctype[c]),len(chan),len(v)))
            # incomplete flag
            inraw = any(p+d <= k < p+l for (p,l,d) in segs)   # cut at/after data start and before end
            st=t.file_status.incomplete_final_segment
            if st != inraw: rec("status_%s_expected_%s"%(st,inraw),(it,k,segs))
            # lazy agrees
            try:
                with TdmsFile.open(io.BytesIO(g), raw_timestamps=True) as tl:
                    for c in got:
                        v=canon(ctype,c,tl['g'][c.split("'")[3]][:])
                        if v!=got[c]: rec("lazy_ne_eager",(it,k,c,hex(ctype[c]),len(v),len(got[c])))
            except Exception as ex:
                rec("lazy_exc:"+type(ex).__name__+":"+str(ex)[:60],(it,k,{c:hex(x) for c,x in ctype.items()}))
    for kk,v in sorted(kinds.items(), key=lambda kv:-len(kv[1])): print(len(v), kk, v[:2])
    print("done")
run(int(sys.argv[1]), int(sys.argv[2]), len(sys.argv)>3)
