import os, io, random, tempfile, shutil, gc
from fuzz1 import *
from nptdms import TdmsWriter, ChannelObject
def fds(): return set(os.listdir('/proc/self/fd'))
d=tempfile.mkdtemp(dir='/tmp/scratch'); rng=random.Random(1); kinds={}
def rec(k,i): kinds.setdefault(k,[]).append(i)
try:
    for it in range(300):
        f, expect, ctype, segs = gen_file(rng)
        idx=b''.join(b'TDSh'+f[p+4:p+dp] for (p,l,dp) in segs)
        mode=rng.choice(['ok','badtag','badmeta','badtype','dim','idxmismatch','badidx'])
        g=bytearray(f); gi=bytearray(idx)
        if mode=='badtag': g[0:4]=b'XXXX'
        if mode=='badmeta': p,l,dp=segs[-1]; g[p+28:p+32]=b'\xff\xff\xff\x7f'
        if mode=='badtype':
            j=f.find(b'\x14\x00\x00\x00'); 
            if j>0: g[j+4:j+8]=b'\x99\x00\x00\x00'
        if mode=='dim':
            j=f.find(b'\x14\x00\x00\x00')
            if j>0: g[j+8:j+12]=b'\x02\x00\x00\x00'
        if mode=='idxmismatch': gi=bytearray(b'TDSh'+idx[4:12]+b'\x05'+idx[13:]) 
        if mode=='badidx': gi[0:4]=b'XXXX'
        pth=os.path.join(d,'x.tdms'); open(pth,'wb').write(bytes(g))
        ip=pth+'_index'
        withidx = rng.random()<0.6
        if withidx: open(ip,'wb').write(bytes(gi))
        elif os.path.exists(ip): os.unlink(ip)
        for api in ('read','read_metadata','open_with'):
            before=fds()
            try:
                if api=='read': t=TdmsFile.read(pth)
                elif api=='read_metadata': t=TdmsFile.read_metadata(pth)
                else:
                    with TdmsFile.open(pth) as t:
                        for gg in t.groups():
                            for ch in gg.channels(): 
                                try: ch[:]
                                except Exception: pass
                res='ok'
            except Exception as ex: res='exc:'+type(ex).__name__
            t=None
            after=fds()
            if after!=before: rec("leak_%s_%s_%s_idx%s"%(api,mode,res,withidx),(it,))
        # stream: never closed
        s=io.BytesIO(bytes(g))
        try: TdmsFile.read(s)
        except Exception: pass
        if s.closed: rec("stream_closed",(it,mode))
finally: shutil.rmtree(d)
for kk,v in sorted(kinds.items(), key=lambda kv:-len(kv[1])): print(len(v), kk, v[:2])
print("done")
