from enc import *
import numpy as np, traceback
from nptdms import TdmsFile
def i32(*v): return np.array(v,dtype=np.int32).tobytes()
f  = seg([obj("/'g'/'a'",(3,4))], i32(1,2,3,4))
f += seg([obj("/'g'/'b'",(3,2))], i32(100,101))
f += seg([obj("/'g'/'a'",(3,4))], i32(*range(5,17)))
full = TdmsFile.read(io.BytesIO(f))['g']['a'][:]
n=0
with TdmsFile.open(io.BytesIO(f)) as t:
    ch = t['g']['a']
    for off in range(0,18):
        for ln in range(0,18):
            try:
                r = ch.read_data(off, ln)
                exp = full[off:off+ln]
                if not np.array_equal(r, exp): print("MISMATCH", off, ln, r, exp); n+=1
            except Exception as ex:
                n+=1
                if n<6: print("EXC", off, ln, type(ex).__name__, ex)
print(n)
