From Coq Require Import ZArith List Bool Lia PrimFloat Uint63 FloatOps SpecFloat.
Open Scope float_scope.
Definition fpu : float := 0x1.0c6f7a0b5ed8dp+44.
Eval vm_compute in fpu.
(* encode: int(us * fpu), decode: int(frac / fpu) *)
Definition trunc_pos (f : float) : Z :=
  match Prim2SF f with
  | S754_finite false m e => (if (0 <=? e)%Z then Z.pos m * 2 ^ e else Z.pos m / 2 ^ (- e))%Z
  | _ => 0%Z
  end.
Definition z2f (z : Z) : float := SF2Prim (binary_normalize 53 1024 z 0 false).
Definition enc (us : Z) : Z := trunc_pos (z2f us * fpu).
Definition dec (fr : Z) : Z := trunc_pos (z2f fr / fpu).
Eval vm_compute in (enc 1, dec (enc 1), enc 123456, dec (enc 123456)).
Fixpoint count_bad (n : nat) (us : Z) (acc : Z) : Z :=
  match n with O => acc | S n' => count_bad n' (us + 1)%Z (if (dec (enc us) =? us)%Z then acc else acc + 1)%Z end.
Time Eval vm_compute in count_bad (Z.to_nat 100000) 0%Z 0%Z.
