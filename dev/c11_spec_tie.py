"""Tie of Model/SpecDaqmx.v (spec_meaning_dq / spec_tokens_dq) to the implementation.

The refinement theorem of Props/C11_spec.v is about the specification; this script shows that
the specification says what npTDMS does.  Generated DAQmx files (the layouts of harness/c11.py:
1-3 raw buffers, 1-4 channels, 1-3 scalers, DaqMxRawData and typed channels, format-changing and
digital-line scalers, restated / metadata-less / matches-previous / switched-off segments, both
byte orders), every second one followed by an ORDINARY segment with an int32 channel:
    spec_tokens_dq (spec_meaning_dq syntax)      evaluated inside Coq on the file SYNTAX
  = the observation of TdmsFile.read             on the bytes of the independent encoder
and FileSyn.ser_file syntax = those bytes.  Plus error cases (mutated syntax): widths that
differ between two objects -> BadLayout (implementation: ValueError); a scaler whose buffer
index is out of range -> BadLayout (IndexError); a raw data block one byte short -> BadRawData.

Run from the verif root:   PYTHONPATH=/repo /venv/bin/python dev/c11_spec_tie.py [--n N] [--seed S]
Exit 0 iff no disagreement.
"""
import argparse
import copy
import os
import random
import sys

ROOT = os.path.dirname(os.path.dirname(os.path.abspath(__file__)))
sys.path.insert(0, os.path.join(ROOT, "harness"))
import common as H           # noqa: E402

H.ensure_env()
import tdmsgen as G          # noqa: E402
import daqmxgen as D         # noqa: E402
import spec_tie as T         # noqa: E402
import c11                   # noqa: E402

G.silence_logs()
IMPORTS = ("From NpTdms Require Import Base.Bytes Base.Res Model.Tokens Model.SegState "
           "Model.Layout Model.Reader Model.FileSyn Model.Spec Model.SpecDaqmx.\nOpen Scope Z_scope.\n")
EXTRA = """
Definition tie_case := ((list fseg * list tok) * bytes)%type.
Definition tie_tok (c : tie_case) : bool :=
  match spec_meaning_dq (fst (fst c)) with
  | SOk k => toks_eqb (spec_tokens_dq k) (snd (fst c))
  | SErr _ => false
  end.
Definition tie_ser (c : tie_case) : bool := bytes_eqb (ser_file (fst (fst c))) (snd c).
Definition tie_ok (c : tie_case) : bool := forallb seg_ok_dq (fst (fst c)).
(* kind 0: BadLayout expected, 1: BadRawData expected *)
Definition tie_err (c : list fseg * Z) : bool :=
  match spec_meaning_dq (fst c) with
  | SOk _ => false
  | SErr e => if snd c =? 0 then match e with BadLayout => true | _ => false end
              else match e with BadRawData => true | _ => false end
  end.
"""


def main():
    ap = argparse.ArgumentParser()
    ap.add_argument("--n", type=int, default=300)
    ap.add_argument("--seed", type=int, default=20240611)
    a = ap.parse_args()
    rng = random.Random(a.seed)
    cases, errs, files = [], [], []
    impl_raised = 0
    for i in range(a.n):
        widths, rows, chans, segs = c11.build(rng, truncatable=False)
        if i % 2 == 1:
            n = rng.randint(0, 3)
            vals = b"".join(rng.randrange(2 ** 31).to_bytes(4, "little") for _ in range(n))
            segs = segs + [G.Seg(e="<", toc=G.TOC_META | G.TOC_RAW | G.TOC_NEWLIST,
                                 entries=[G.Entry(G.quote_path("g", "x"), ("full", 20, 3, 1, n, None))],
                                 data=vals)]
        data = G.ser_file(segs)
        toks, ex = G.read_eager(data)
        if ex is not None:
            impl_raised += 1
            continue
        files.append(segs)
        cases.append("((%s, %s), %s)" % (T.c_segs(segs), G.toks_to_coq(toks), H.chex(data)))
        # error cases from the first segment (restated DAQmx metadata, >= 1 chunk)
        s0 = segs[0]
        if len(s0.entries) >= 2 and i % 3 == 0:
            m = copy.deepcopy(segs)
            k, (tag, kind, dt, dim, n, scalers, w) = 1, m[0].entries[1].idx
            m[0].entries[1] = G.Entry(m[0].entries[1].path, (tag, kind, dt, dim, n, scalers, list(w) + [4]),
                                      m[0].entries[1].props)
            _, ex2 = G.read_eager(G.ser_file(m))
            if ex2 is not None:
                errs.append("(%s, 0)" % T.c_segs(m))
        if i % 3 == 1:
            m = copy.deepcopy(segs)
            tag, kind, dt, dim, n, scalers, w = m[0].entries[0].idx
            sc = list(scalers)
            sc[0] = (sc[0][0], len(w) + 2, sc[0][2], sc[0][3], sc[0][4])
            m[0].entries[0] = G.Entry(m[0].entries[0].path, (tag, kind, dt, dim, n, sc, w), m[0].entries[0].props)
            _, ex2 = G.read_eager(G.ser_file(m))
            if ex2 is not None:
                errs.append("(%s, 0)" % T.c_segs(m))
        if i % 3 == 2 and len(s0.data) >= 2:
            m = copy.deepcopy(segs)
            m[0] = G.Seg(e=s0.e, toc=s0.toc, entries=s0.entries, data=s0.data[:-1])
            errs.append("(%s, 1)" % T.c_segs(m))
    bad_total = 0
    for fn, what in (("tie_tok", "spec_tokens_dq (spec_meaning_dq syntax) vs TdmsFile.read"),
                     ("tie_ser", "FileSyn.ser_file vs the independent encoder"),
                     ("tie_ok", "seg_ok_dq holds")):
        bad, errors = H.run_sharded("C11SPEC", IMPORTS, "tie_case", fn, cases,
                                    shard=max(1, -(-len(cases) // 6)), extra_defs=EXTRA, tag="dq_" + fn, timeout=900)
        for name, out in errors:
            print("COQ ERROR", name, out[-600:])
            bad_total += 1
        print("%-8s %4d cases, %d disagreements   (%s)" % (fn, len(cases), len(bad), what))
        for i in sorted(bad)[:3]:
            print("   case", i, G.ser_file(files[i]).hex())
        bad_total += len(bad)
    bad, errors = H.run_sharded("C11SPEC", IMPORTS, "(list fseg * Z)%type", "tie_err", errs,
                                shard=max(1, -(-len(errs) // 6)), extra_defs=EXTRA, tag="dq_err", timeout=900)
    for name, out in errors:
        print("COQ ERROR", name, out[-600:])
        bad_total += 1
    print("tie_err  %4d error cases, %d disagreements   (BadLayout / BadRawData where the implementation raises "
          "or truncates)" % (len(errs), len(bad)))
    bad_total += len(bad)
    print("files on which the implementation raised (skipped):", impl_raised)
    return 1 if bad_total else 0


if __name__ == "__main__":
    sys.exit(main())
