#!/usr/bin/env python3
"""Prints the markdown table of seeded bugs (DESIGN.md 13.4) from seeded/*/meta.json."""
import glob, json, os
print("| Seeded bug | What was changed | Detected by |\n|---|---|---|")
for d in sorted(p for p in glob.glob(os.path.join(os.path.dirname(__file__), "..", "seeded", "*")) if os.path.isdir(p)):
    m = json.load(open(os.path.join(d, "meta.json")))
    det = ", ".join(m.get("detected_by_checks", [])) or "NOT DETECTED"
    note = m.get("note", "")
    print("| `%s` | %s | %s%s |" % (os.path.basename(d), m["title"].replace("|", "/"), det,
                                   (" — " + note) if note else ""))
