"""Replay of the Props/C14_file.v examples on the real code.

The bytes of sx_file, dqs_file (Proofs/ScaleFile.v) and nn_file (Proofs/DtypeFile.v) are
obtained from Coq itself (`ser_file <file>` evaluated by vm_compute), read by npTDMS with
TdmsFile.read and TdmsFile.open, with and without raw_timestamps, and for every channel the
script prints channel.dtype, len(channel) and the dtype / length of channel[:],
read_data(len, 3) (offset at the end), read_data(2, 0) (length 0), read_data(len + 11, 3)
and channel[0:0] - next to what the Coq model says on the same bytes
(declared_dtype_file / declared_dtype_file_open, raw_dtype_file, len_file).  Any difference
is printed as MISMATCH and the script exits 1.

Expected (c14_file_sx_declared, c14_file_dqs_declared, c14_file_nn_declared):
  sx  a float64 (own Linear, Polynomial)   b float64 (group Linear)   c int16 ('scaled')  len 9
  dqs c0 float64 (int16 + uint8 scalers, Add, Linear)                                      len 6
  nn  s object   t datetime64[us] / timestamp struct   u V8 (len 0)   z complex128 (complex64 + Linear)

Run:  cd <verif> && PYTHONPATH=/repo /venv/bin/python dev/c14_file_replay.py
"""
import io
import pathlib
import re
import sys

_root = pathlib.Path(__file__).resolve().parent.parent
sys.path.insert(0, str(_root / "harness"))
import common as H  # noqa: E402
import numpy as np  # noqa: E402
from nptdms import TdmsFile  # noqa: E402

IMPORTS = ("From Coq Require Import ZArith String Init.Byte.\n"
           "From NpTdms Require Import Base.Bytes Model.FileSyn Model.ScaleDtype Proofs.ScaleFile Proofs.DtypeFile.\n")
TS_STRUCT = sorted([("second_fractions", "u8"), ("seconds", "i8")])


def coq_name(d):
    """the spelling Model/ScaleDtype.xdt_name uses"""
    if d.names:
        got = sorted((n, d.fields[n][0].str.lstrip("<>=|")) for n in d.names)
        return "timestamp-struct" if got == TS_STRUCT else "struct"
    if d.kind == "O":
        return "object"
    if d.kind == "M":
        return "datetime64[%s]" % np.datetime_data(d)[0]
    if d.kind == "V":
        return "void%d" % (8 * d.itemsize)
    return d.newbyteorder("=").name


def coq_bytes(name):
    rc, out = H.coq_print_terms("c14_file_replay", IMPORTS, ["List.map Byte.to_nat (ser_file %s)" % name], tag="replay_" + name)
    assert rc == 0, out
    body = out[out.index("= [") + 3:out.index("]")]
    return bytes(int(x.replace("%nat", "")) for x in body.replace("\n", " ").split(";"))


def model(name, path, ts):
    t = "true" if ts else "false"
    p = H.chex(path)
    rc, out = H.coq_print_terms("c14_file_replay", IMPORTS, [
        "match declared_dtype_file (ser_file %s) %s %s with Base.Res.Ok (ScaleGraph.Ok d) => xdt_name d "
        "| _ => \"?\"%%string end" % (name, p, t),
        "match declared_dtype_file_open (ser_file %s) %s %s with Base.Res.Ok (ScaleGraph.Ok d) => xdt_name d "
        "| _ => \"?\"%%string end" % (name, p, t),
        "match raw_dtype_file (ser_file %s) %s %s with Base.Res.Ok d => xdt_name d | _ => \"?\"%%string end"
        % (name, p, t),
        "len_file (ser_file %s) %s" % (name, p)], tag="replay_m")
    assert rc == 0, out
    if '--debug' in sys.argv:
        print(out)
    strs = re.findall(r'= "([^"]*)"', out)
    n = int(re.search(r"Ok \(?(-?\d+)", out).group(1))
    return strs[0], strs[1], strs[2], n


def main():
    bad = 0
    for name in ("sx_file", "dqs_file", "nn_file"):
        data = coq_bytes(name)
        print("%s: %d bytes" % (name, len(data)))
        for ts in (False, True):
            eager = TdmsFile.read(io.BytesIO(data), raw_timestamps=ts)
            with TdmsFile.open(io.BytesIO(data), raw_timestamps=ts) as lazy:
                for g in eager.groups():
                    for ch in g.channels():
                        lch = lazy[g.name][ch.name]
                        n = len(ch)
                        decl, decl_open, raw, mlen = model(name, ch.path.encode(), ts)
                        reads = {"eager [:]": ch[:], "lazy [:]": lch[:],
                                 "eager read_data(len,3)": ch.read_data(n, 3), "lazy read_data(len,3)": lch.read_data(n, 3),
                                 "eager read_data(2,0)": ch.read_data(2, 0), "lazy read_data(2,0)": lch.read_data(2, 0),
                                 "lazy read_data(len+11,3)": lch.read_data(n + 11, 3), "lazy [0:0]": lch[0:0]}
                        line = "  raw_ts=%-5s %-10s dtype=%-16s len=%d | model: read %s, open %s, raw %s, len %d" % (
                            ts, ch.path, coq_name(ch.dtype), n, decl, decl_open, raw, mlen)
                        ok = coq_name(ch.dtype) == decl == decl_open == coq_name(lch.dtype) and n == mlen == len(lch)
                        ok = ok and coq_name(ch._raw_data_dtype()) == raw
                        for what, a in reads.items():
                            full = what.endswith("[:]")
                            if coq_name(a.dtype) != decl or (full and len(a) != n) or (not full and len(a) != 0):
                                ok = False
                                line += "\n      %s -> %s x %d" % (what, a.dtype, len(a))
                        print(line + ("" if ok else "   MISMATCH"))
                        bad += not ok
    print("all agree" if not bad else "%d MISMATCH" % bad)
    H.cleanup()
    sys.exit(1 if bad else 0)


if __name__ == "__main__":
    H.ensure_env()
    main()
