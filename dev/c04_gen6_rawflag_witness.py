import io, struct, numpy as np
from nptdms import TdmsWriter, ChannelObject, TdmsFile
b = io.BytesIO()
with TdmsWriter(b) as w:
    w.write_segment([ChannelObject('g','a',np.arange(10,dtype=np.int32))])
    w.write_segment([ChannelObject('g','a',np.arange(10,20,dtype=np.int32))])
data = bytearray(b.getvalue())
# clear kTocRawData (bit 3) in the FIRST segment's lead-in
toc = struct.unpack('<i', data[4:8])[0]
print('toc', toc)
data[4:8] = struct.pack('<i', toc & ~8)
eager = TdmsFile.read(io.BytesIO(bytes(data)))['g']['a'][:]
print('eager', eager)
with TdmsFile.open(io.BytesIO(bytes(data))) as f:
    ch = f['g']['a']
    print('lazy full', ch[:])
    print('lazy read_data(3,5)', ch.read_data(offset=3, length=5), 'expected', eager[3:8])
