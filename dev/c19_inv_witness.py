"""C19_file: the witness of Props/C19_file.v ranges_inv_serialised_refuted on the real code.

nt_file (Proofs/LazyRangesInvEx.v): segment 0 lists /'g'/'x' without data and the int32 channel
/'g'/'c' (2 values, one chunk); segment 1 (metadata only, NO raw data) switches /'g'/'x' on with
a "matches previous" index.  The state fails ranges_inv (an untyped data object in a zero-chunk
segment), yet the model lists -- and nptdms issues -- only the tag check and the channel's own
bytes.  This script replays the reads on /repo and compares with the lists Coq computed
(embedded below, verbatim from LazyRangesInvEx.nt_facts).

Also replayed: the cut files of Props/C19_file.v c19_file_cut_windows (rc_file cut at 190, le_file
cut at 262 and 111; bytes as in c19_file_example_bytes): reads and values on /repo = the lists and
values Coq evaluated (string channel: after merging adjacent reads, as everywhere in C19).

Run: PYTHONPATH=/repo /venv/bin/python dev/c19_inv_witness.py
"""
import os
import struct
import sys

sys.path.insert(0, os.path.join(os.path.dirname(os.path.abspath(__file__)), "..", "harness"))
import logging  # noqa: E402
from lazygen import RecStream  # noqa: E402
from nptdms import TdmsFile  # noqa: E402
import nptdms.log  # noqa: E402

nptdms.log.log_manager.set_level(logging.ERROR)


def path(s):
    b = s.encode()
    return struct.pack("<I", len(b)) + b


meta0 = (struct.pack("<I", 2)
         + path("/'g'/'x'") + struct.pack("<I", 0xFFFFFFFF) + struct.pack("<I", 0)
         + path("/'g'/'c'") + struct.pack("<IIIQ", 20, 3, 1, 2) + struct.pack("<I", 0))
data0 = struct.pack("<ii", 1, 2)
seg0 = b"TDSm" + struct.pack("<IIQQ", 14, 4713, len(meta0) + len(data0), len(meta0)) + meta0 + data0
meta1 = struct.pack("<I", 1) + path("/'g'/'x'") + struct.pack("<I", 0) + struct.pack("<I", 0)
seg1 = b"TDSm" + struct.pack("<IIQQ", 2, 4713, len(meta1), len(meta1)) + meta1
DATA = seg0 + seg1

# ser_file nt_file as evaluated by Coq (LazyRangesInvEx.nt_bytes)
COQ_HEX = ("5444536d0e00000069120000440000000000000" "03c0000000000000002000000080000002f2767272f277827"
           "ffffffff00000000080000002f2767272f276327140000000300000001000000020000000000000000000000"
           "01000000020000005444536d02000000691200001800000000000000180000000000000001000000"
           "080000002f2767272f2778270000000000000000")
assert DATA.hex() == COQ_HEX, (DATA.hex(), COQ_HEX)

# (offset, length) -> reads the model lists (LazyRangesInvEx.nt_facts)
EXPECTED = {
    (0, None): [(0, 4), (88, 8), (96, 0)],
    (1, 5): [(0, 4), (88, 8), (96, 0)],
    (2, None): [],
}

# ---- the cut files of Props/C19_file.v c19_file_cut_windows (bytes: c19_file_example_bytes) ----
RC_HEX = "5444536d0e00000069120000b3000000000000008d0000000000000004000000010000002fffffffff00000000040000002f276727ffffffff01000000010000006e20000000020000006869080000002f2767272f27612714000000030000000100000002000000000000000100000001000000700300000007000000080000002f2767272f2762271c000000200000000100000002000000000000000b0000000000000000000000010000000200000002000000030000006162630300000004000000000000000300000078797a5444536d08000000691200001300000000000000000000000000000005000000060000000100000003000000717273"
LE_HEX = "5444536d2e0000006912000058000000000000004c0000000000000002000000080000002f2767272f276127140000000200000001000000020000000000000000000000080000002f2767272f2762271400000021000000010000000200000000000000000000000102010304000506010708005444536d0e000000691200002b00000000000000280000000000000001000000080000002f2767272f2762271400000021000000010000000300000000000000000000000101015444536d0a000000691200003200000000000000280000000000000001000000080000002f2767272f2761271400000002000000010000000100000000000000000000000001000a0b0100010c0d"


def merge(log):
    """zero-length reads dropped, adjacent reads merged (LazyRanges.norm_reads; string channels)"""
    out = []
    for p, n in log:
        if n == 0:
            continue
        if out and out[-1][0] + out[-1][1] == p:
            out[-1] = (out[-1][0], out[-1][1] + n)
        else:
            out.append((p, n))
    return out


# (file hex, cut, channel, offset, length, is_string) -> (reads, raw values as bytes / str)
CUTS = [
    (RC_HEX, 190, "a", 0, None, False, [(0, 4), (169, 8), (177, 0)], [1, 2]),
    (RC_HEX, 190, "b", 1, 5, True, [(0, 4), (177, 11)], ["c"]),
    (LE_HEX, 262, "a", 3, None, False, [(0, 4), (110, 6), (116, 0), (116, 4), (187, 4), (258, 2), (260, 0)],
     [0x0807, 0x0b0a]),
    (LE_HEX, 262, "b", 6, None, False,
     [(116, 4), (184, 3), (187, 0), (187, 4), (255, 3), (258, 0), (260, 2), (262, 0)], [1, 0, 1, 0, 1, 0]),
    (LE_HEX, 111, "a", 0, None, False, [(0, 4), (104, 6), (110, 0)], [0x0201, 0x0403]),
    (LE_HEX, 111, "a", 1, 1, False, [(0, 4), (104, 6), (110, 0)], [0x0403]),
]

ok = True
for hx, cut, ch_name, offs, ln, is_str, want, want_vals in CUTS:
    s = RecStream(bytes.fromhex(hx)[:cut])
    with TdmsFile.open(s) as f:
        ch = f["g"][ch_name]
        s.reset_log()
        vals = ch.read_data(offs, ln)
        got = list(s.log)
    vals = [v if isinstance(v, str) else int(v) for v in vals]
    if is_str:
        good = merge(got) == merge(want) and vals == want_vals
    else:
        good = got == want and vals == want_vals
    ok = ok and good
    print("cut %d %s.read_data(%r, %r): reads %r values %r %s" % (cut, ch_name, offs, ln, got, vals,
                                                                    "OK" if good else "MISMATCH want %r %r" % (want, want_vals)))

for (offs, ln), want in EXPECTED.items():
    s = RecStream(DATA)
    with TdmsFile.open(s) as f:
        ch = f["g"]["c"]
        s.reset_log()
        vals = ch.read_data(offs, ln)
        got = list(s.log)
    full = [1, 2]
    exp_vals = full[offs:] if ln is None else full[offs:offs + ln]
    good = got == want and list(vals) == exp_vals
    ok = ok and good
    print("read_data(%r, %r): reads %r  values %r  %s" % (offs, ln, got, list(vals), "OK" if good else "MISMATCH want %r" % (want,)))
sys.exit(0 if ok else 1)
