#!/usr/bin/env python3
import json,sys
d=json.load(open(sys.argv[1]))
print("WHAT:", d['what']); print("KIND:", d['kind'], "KEY:", d['key']); print("ACTUAL:", str(d['actual'])[:1500]); print("EXPECTED:", str(d.get('expected'))[:500])
print("MODEL:", (d['model'] or '')[-2500:] if isinstance(d['model'],str) else d['model'])
c=d['case']
if isinstance(c,dict):
    for k,v in c.items():
        print("CASE", k, ":", str(v)[:1200])
