#!/bin/bash
# usage: run_all.sh <worktree> <mutant-dir> <outfile>   runs demo, tests and ALL 20 checks (5 at a time) against the patched worktree
wt=$1; md=$2; out=$3
cd "$wt" || exit 2
git checkout -q -- . ; git apply "$md/patch.diff" || { echo "PATCH DOES NOT APPLY" > $out; exit 2; }
{
echo "== demo with patch:"; PYTHONPATH="$wt" /venv/bin/python "$md/demo.py" >/tmp/mutrun/demo_out.$$ 2>&1; echo "   exit=$? (expect non-zero)"; tail -2 /tmp/mutrun/demo_out.$$
echo "== tests with patch:"; /venv/bin/python -m pytest -q -p no:cacheprovider -x nptdms/test 2>&1 | tail -1
} > $out 2>&1
cd /tmp/mutrun/verif
printf "%s\n" C01 C02 C03 C04 C05 C06 C07 C08 C09 C10 C11 C12 C13 C14 C15 C16 C17 C18 C19 C20 | xargs -P 5 -I{} bash -c "NPTDMS_REPO=$wt timeout 1500 ./check {} > /tmp/mutrun/chk_{}.$$ 2>&1; echo \"{} exit=\$? viol=\$(grep -c VIOLATION /tmp/mutrun/chk_{}.$$) nofail=\$(grep -c no-failing-input-found /tmp/mutrun/chk_{}.$$)\"" | sort >> $out
for id in C01 C02 C03 C04 C05 C06 C07 C08 C09 C10 C11 C12 C13 C14 C15 C16 C17 C18 C19 C20; do grep "^  #" /tmp/mutrun/chk_$id.$$ | head -2 | cut -c1-250 | sed "s/^/   [$id]/" >> $out; rm -f /tmp/mutrun/chk_$id.$$; done
cd "$wt"; git checkout -q -- .
echo "== demo without patch:" >> $out; PYTHONPATH="$wt" /venv/bin/python "$md/demo.py" >/tmp/mutrun/demo_out.$$ 2>&1; echo "   exit=$? (expect 0)" >> $out; rm -f /tmp/mutrun/demo_out.$$
