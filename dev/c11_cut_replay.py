"""Replay of Props/C11_lazy.v (daqmx_truncation_complete_rows) on the implementation.

dx_file (Props/C11_read.v) is cut inside the raw data of its first, two-chunk DAQmx segment
(raw data at 271..305; 17 bytes per chunk: buffer 0 = 2 rows x 4 bytes, buffer 1 = 3 rows x 3
bytes).  For every cut the values npTDMS returns (eager and lazy) are compared with the
directly addressed values of the complete rows (whole leading buffers, floor(rest/width) rows
of the next buffer, nothing after), computed here from the complete bytes.

Run: PYTHONPATH=/repo /venv/bin/python dev/c11_cut_replay.py
"""
import io, sys, warnings, logging
logging.disable(logging.CRITICAL)
from nptdms import TdmsFile

HEX = ("5444536dce00000000001269000000000000011500000000000000f3000000030000000a2f276471272f2763302700001269ffffffff0000000100000000000000020000000200000003000000000000000000000000000000000000000000000000000000030000000000000005000000020000000400000003000000000000000a2f276471272f276331270000126affffffff0000000100000000000000030000000100000000000000010000000a0000000000000000020000000400000003000000000000000a2f276471272f276332270000126900000003000000010000000000000002000000010000000500000000000000000000000000000000000000020000000400000003000000000102030411121314a0a1a2b0b5b2c0c1c221222324313233340004000fff0a0001005444536dc8000000000012690000000000000011000000000000000041424344515253540006000a0b000c0d0e5444536d0e000000691200003000000000000000280000000000000001000000080000002f2767272f2778271400000003000000010000000200000000000000000000000700000008000000")
FULL = bytes.fromhex(HEX)
DATA0, CB = 271, 17
DIMS = [(2, 4), (3, 3)]            # (rows, width)
BASE = [0, 8]


def rows_within(n, w, base, avail):
    return min(w * n, max(0, avail - base)) // w


def expected(j):
    """per channel: scaler id (or None for the typed channel) -> list of raw values (bytes, as stored)"""
    raw = FULL[DATA0:DATA0 + 34]
    q, rem = divmod(j, CB)
    out = {"c0": {0: [], 5: []}, "c1": {0: []}, "c2": []}
    for ci in range(q + (1 if rem else 0)):
        avail = CB if ci < q else rem
        r0 = rows_within(2, 4, 0, avail); r1 = rows_within(3, 3, 8, avail)
        for i in range(r0):
            a = ci * CB + i * 4
            out["c0"][0].append(int.from_bytes(raw[a:a + 2], "big", signed=True))      # int16 BE at byte 0
            out["c0"][5].append(raw[a + 3])                                              # uint8 at byte 3
            out["c2"].append(int.from_bytes(raw[a:a + 4], "big", signed=True))           # int32 BE at byte 0
        for i in range(r1):
            a = ci * CB + 8 + i * 3
            out["c1"][0].append((raw[a + 1] >> 2) & 1)                                  # bit 10: byte 1, bit 2
    return out


def observe(data, lazy):
    with warnings.catch_warnings():
        warnings.simplefilter("ignore")
        f = (TdmsFile.open if lazy else TdmsFile.read)(io.BytesIO(data))
        g = f["dq"]
        out = {}
        for name in ("c0", "c1"):
            d = g[name].read_data(scaled=False) if lazy else g[name].raw_scaler_data
            out[name] = {int(k): [int(x) for x in v] for k, v in d.items()}
        d = g["c2"].read_data(scaled=False) if lazy else g["c2"].raw_data
        out["c2"] = [int(x) for x in d]
        lens = {name: len(g[name]) for name in ("c0", "c1", "c2")}
        inc = bool(f.file_status.incomplete_final_segment)
        f.close()
        return out, lens, inc


bad = 0
for j in range(0, 34):
    exp = expected(j)
    for lazy in (False, True):
        got, lens, inc = observe(FULL[:DATA0 + j], lazy)
        if got != exp or not inc:
            bad += 1
            print("DIFF cut", j, "lazy", lazy, "\n  got", got, "\n  exp", exp, inc)
        # len(channel): every object of dx_file has its scalers in ONE buffer
        if lens != {"c0": len(exp["c0"][0]), "c1": len(exp["c1"][0]), "c2": len(exp["c2"])}:
            bad += 1
            print("LEN cut", j, lens)
print("cuts 0..33 of the raw data of DAQmx segment 0, eager and lazy:", "disagreements", bad)

# ---- daqmx_lazy_windows / daqmx_lazy_windows_typed / daqmx_chunk_stream on the complete file ----
nwin = 0
with warnings.catch_warnings():
    warnings.simplefilter("ignore")
    eager = TdmsFile.read(io.BytesIO(FULL))
    lazy = TdmsFile.open(io.BytesIO(FULL))
    for name in ("c0", "c1", "c2"):
        ce, cl = eager["dq"][name], lazy["dq"][name]
        full = ce.raw_scaler_data if name != "c2" else {None: ce.raw_data}
        n = len(ce)
        for offs in range(0, n + 3):
            for ln in [None] + list(range(0, n + 3)):
                w = cl.read_data(offset=offs, length=ln, scaled=False)
                w = w if isinstance(w, dict) else {None: w}
                for sid, vals in full.items():
                    nwin += 1
                    exp = list(vals[offs:] if ln is None else vals[offs:offs + ln])
                    if list(w[sid]) != exp:
                        bad += 1
                        print("WINDOW", name, sid, offs, ln, list(w[sid]), exp)
        # chunk stream
        for sid, vals in full.items():
            parts = []
            for ch in cl.data_chunks():
                raw = ch._raw_data if hasattr(ch, "_raw_data") else None
                d = raw.scaler_data[sid] if (raw is not None and sid is not None) else (raw.data if raw is not None else None)
                if d is None:
                    break
                parts.extend(list(d))
            if parts and parts != list(vals):
                bad += 1
                print("CHUNKS", name, sid, parts, list(vals))
    lazy.close()
print("lazy windows of c0 (scalers 0, 5), c1 (scaler 0), c2 on the complete file:", nwin, "windows, disagreements", bad)
sys.exit(1 if bad else 0)
