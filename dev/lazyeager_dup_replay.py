"""Replay of Props/C03_read.v lazy_eq_eager_refuted (dup_file) on the implementation.

Run:  PYTHONPATH=/repo /venv/bin/python dev/lazyeager_dup_replay.py

Two segments, one int32 channel /'g'/'a'.  Segment 1: a = [1, 2].  Segment 2 starts
a new object list and lists the channel TWICE: full index (2 values), then "no
data" (0xFFFFFFFF).  The bytes are ser_file dup_file of Proofs/LazyEagerExamples.v.
TdmsFile.read decodes segment 2 (the data object is in ordered_objects), while
TdmsFile.open looks the channel up through object_index, a dict that maps the
path to the LAST object of that path (the no-data one), and skips the segment;
the preallocated receiver keeps its zeros.
"""
import io
from nptdms import TdmsFile

DATA = bytes([
    84, 68, 83, 109, 14, 0, 0, 0, 105, 18, 0, 0, 48, 0, 0, 0, 0, 0, 0, 0, 40, 0, 0, 0, 0, 0, 0, 0,
    1, 0, 0, 0, 8, 0, 0, 0, 47, 39, 103, 39, 47, 39, 97, 39, 20, 0, 0, 0, 3, 0, 0, 0, 1, 0, 0, 0,
    2, 0, 0, 0, 0, 0, 0, 0, 0, 0, 0, 0, 1, 0, 0, 0, 2, 0, 0, 0,
    84, 68, 83, 109, 14, 0, 0, 0, 105, 18, 0, 0, 68, 0, 0, 0, 0, 0, 0, 0, 60, 0, 0, 0, 0, 0, 0, 0,
    2, 0, 0, 0, 8, 0, 0, 0, 47, 39, 103, 39, 47, 39, 97, 39, 20, 0, 0, 0, 3, 0, 0, 0, 1, 0, 0, 0,
    2, 0, 0, 0, 0, 0, 0, 0, 0, 0, 0, 0, 8, 0, 0, 0, 47, 39, 103, 39, 47, 39, 97, 39,
    255, 255, 255, 255, 0, 0, 0, 0, 3, 0, 0, 0, 4, 0, 0, 0])

eager = TdmsFile.read(io.BytesIO(DATA))['g']['a'][:]
with TdmsFile.open(io.BytesIO(DATA)) as f:
    ch = f['g']['a']
    lazy = ch[:]
    lazy_rd = ch.read_data()
    lazy_win = ch.read_data(2, 2)
    lazy_idx = [int(ch[i]) for i in range(len(ch))]
    n = len(ch)
print("eager  channel[:]      ", eager.tolist())
print("lazy   len(channel)    ", n)
print("lazy   channel[:]      ", lazy.tolist())
print("lazy   read_data()     ", lazy_rd.tolist())
print("lazy   read_data(2, 2) ", lazy_win.tolist(), " expected", eager[2:4].tolist())
print("lazy   [channel[i]]    ", lazy_idx)
assert eager.tolist() == [1, 2, 3, 4]
print("VIOLATION" if lazy.tolist() != eager.tolist() else "agree")
