"""Replay of the examples of Props/C13_daqmx_lazy.v and Props/C14_daqmx_lazy.v on the real
code: lazy windows of SCALED DAQmx channels.

1. dqs_file (Proofs/ScaleFile.v; rebuilt by dev/c13_file_replay.dqs_file with the harness's
   independent encoder): TdmsFile.open(...)['dq']['c0'].read_data(o, l) for the windows of
   c13_daqmx_lazy_eval, against the window of TdmsFile.read(...)['dq']['c0'][:]; dtype and
   length; read_data(1, 3, scaled=False); a negative offset.
2. dx_file (Proofs/ReadCorrectDaqmx.v, the embedded bytes of Example dx_bytes): the typed
   DAQmx channel c2 and the ordinary channel x lazily; c0 (scaler data, no scaling) raises
   eagerly and lazily alike.

Run:  cd <verif> && PYTHONPATH=/repo /venv/bin/python dev/c13_daqmx_lazy_replay.py
"""
import io
import pathlib
import re
import sys

_root = pathlib.Path(__file__).resolve().parent.parent
sys.path.insert(0, str(_root / "harness"))
sys.path.insert(0, str(_root / "dev"))
import tdmsgen as G  # noqa: E402
import c13_file_replay as R  # noqa: E402
from nptdms import TdmsFile  # noqa: E402

WINDOWS = [(1, 2), (1, 4), (3, None), (5, 3), (6, 2), (2, 0), (0, None), (6, None), (20, 3), (1, 0)]


def attempt(f):
    try:
        return f()
    except Exception as e:       # noqa: BLE001
        return "%s: %s" % (type(e).__name__, e)


def main():
    ok = True
    data = G.ser_file(R.dqs_file())
    eager = TdmsFile.read(io.BytesIO(data))["dq"]["c0"]
    full = eager[:]
    print("1. dqs_file (%d bytes): eager channel[:] = %s %s, len(channel) = %d, channel.dtype = %s"
          % (len(data), full.dtype, R.hexes(full), len(eager), eager.dtype))
    with TdmsFile.open(io.BytesIO(data)) as f:
        ch = f["dq"]["c0"]
        print("   open: channel.dtype = %s, len(channel) = %d" % (ch.dtype, len(ch)))
        for o, l in WINDOWS:
            got = ch.read_data(o, l)
            want = full[o:] if l is None else full[o:o + l]
            same = got.dtype == want.dtype and got.tolist() == want.tolist() and got.dtype == ch.dtype
            ok &= same
            print("   lazy read_data(%d, %s) = %s %s   %s" % (o, l, got.dtype, [float(x) for x in got],
                                                             "= window of eager" if same else "DIFFERS"))
        raw = ch.read_data(1, 3, scaled=False)
        print("   lazy read_data(1, 3, scaled=False) = %s" % {k: (str(v.dtype), v.tolist()) for k, v in raw.items()})
        print("   lazy read_data(-1) -> %s" % attempt(lambda: ch.read_data(-1)))

    src = (_root / "coq" / "theories" / "Proofs" / "ReadCorrectDaqmx.v").read_text()
    m = re.search(r'Example dx_bytes :\s*ser_file dx_file =\s*hex "([0-9a-f]+)"', src)
    dx = bytes.fromhex(m.group(1))
    er = TdmsFile.read(io.BytesIO(dx))
    print("2. dx_file (%d bytes): eager c2 = %s, x = %s, c0[:] -> %s"
          % (len(dx), er["dq"]["c2"][:].tolist(), er["g"]["x"][:].tolist(), attempt(lambda: er["dq"]["c0"][:])))
    with TdmsFile.open(io.BytesIO(dx)) as f:
        c2 = f["dq"]["c2"].read_data(1, 3)
        x = f["g"]["x"].read_data(1, None)
        print("   lazy c2.read_data(1, 3) = %s %s; x.read_data(1) = %s %s; c0.read_data() -> %s"
              % (c2.dtype, c2.tolist(), x.dtype, x.tolist(), attempt(lambda: f["dq"]["c0"].read_data())))
        raw = f["dq"]["c0"].read_data(1, 4, scaled=False)
        print("   lazy c0.read_data(1, 4, scaled=False) = %s" % {k: (str(v.dtype), v.tolist()) for k, v in raw.items()})
        ok &= c2.tolist() == er["dq"]["c2"][:][1:4].tolist() and x.tolist() == er["g"]["x"][:][1:].tolist()
    print("all lazy windows equal the windows of the eager scaled data: %s" % ok)
    return 0 if ok else 1


if __name__ == "__main__":
    sys.exit(main())
