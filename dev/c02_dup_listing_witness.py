#!/venv/bin/python
"""Replay of Proofs/GenSegStateEquiv.v read_segment_objects_dup_refuted on the real code.

Segment 1 defines /'g'/'a' (Int32, one value).  Segment 2 (no new-object-list flag) lists /'g'/'a' TWICE:
"no data", then "matches previous".  TdmsSegment.read_segment_objects consults its index map, built once from the
copied list, at the second listing, finds the stale object (has_data True) and changes nothing: the object ends
WITHOUT data in segment 2 (as the translated function says).  Model/SegState.v step_entry writes the stale object
back: WITH data.  Blocks listing a path twice are outside every property (wf / listed_once); they are the known
finding F1's territory (dup-path-in-segment).

    PYTHONPATH=/repo /venv/bin/python dev/c02_dup_listing_witness.py
"""
import io
import os
import sys

sys.path.insert(0, os.path.join(os.path.dirname(os.path.abspath(__file__)), "..", "harness"))
sys.path.insert(0, os.environ.get("NPTDMS_REPO", "/repo"))
import tdmsgen as G                         # noqa: E402
from nptdms.reader import TdmsReader        # noqa: E402

p = G.quote_path("g", "a")
segs = [G.Seg(entries=[G.Entry(p, ("full", 20, 3, 1, 1, None))], data=b"\x01\0\0\0"),
        G.Seg(toc=G.TOC_META | G.TOC_RAW, entries=[G.Entry(p, None), G.Entry(p, "prev")], data=b"")]
r = TdmsReader(io.BytesIO(G.ser_file(segs)))
r.read_metadata()
flags = [[o.has_data for o in s.ordered_objects] for s in r._segments]
print("has_data per segment:", flags)
assert flags == [[True], [False]], flags
print("code: the doubly listed object ends without data (model: with data) -- as the translated function computes")
