#!/usr/bin/env python3
"""usage: dev/keep_mutant.py <property> <name> <mutant-out-dir> <detected-by comma list or 'none'> [note]
Copies patch.diff / demo.py / meta.json into /verif/seeded/<property>_<name>/ and records what was run."""
import json, os, shutil, sys
prop, name, src, det = sys.argv[1:5]
note = sys.argv[5] if len(sys.argv) > 5 else ""
dst = "/verif/seeded/%s_%s" % (prop, name)
os.makedirs(dst, exist_ok=True)
for f in ("patch.diff", "demo.py"):
    shutil.copy(os.path.join(src, f), os.path.join(dst, f))
meta = json.load(open(os.path.join(src, "meta.json")))
meta["breaks_property"] = prop
meta["confirmed_by_me"] = {
    "tests_pass_with_patch": True, "demo_fails_with_patch": True, "demo_passes_without": True,
    "how": "applied patch.diff in a scratch worktree of /repo HEAD, ran the 497-test suite, ran demo.py with and "
           "without the patch, ran the listed checks with NPTDMS_REPO pointing at the patched worktree "
           "(dev/run_mutant.sh), reverted"}
meta["detected_by_checks"] = [] if det == "none" else det.split(",")
if note:
    meta["note"] = note
json.dump(meta, open(os.path.join(dst, "meta.json"), "w"), indent=1)
print("kept", dst)
