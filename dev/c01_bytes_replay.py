"""Replay of the example streams of Props/C01_bytes.v on the implementation.

The rejected-stream Examples claim "the reader model accepts / rejects"; this script rebuilds the same byte
strings in Python, reads them with npTDMS (PYTHONPATH=/repo) and evaluates inside Coq, per stream,
  parse_file b  (expected: Some for rc_bytes, None for all the others)   and
  Reader.agree_all b (observation of TdmsFile.read)                      (model and implementation agree).
Usage: python3 dev/c01_bytes_replay.py      exit 0 iff everything is as the Examples say
"""
import os
import struct
import sys

sys.path.insert(0, os.path.join(os.path.dirname(os.path.abspath(__file__)), "..", "harness"))
import common as H

H.ensure_env()
import tdmsgen as G          # noqa: E402
import readerlib as R        # noqa: E402
import parse_tie as P        # noqa: E402

RC = bytes.fromhex(
    "5444536d0e00000069120000b3000000000000008d0000000000000004000000010000002fffffffff00000000040000002f276727"
    "ffffffff01000000010000006e20000000020000006869080000002f2767272f27612714000000030000000100000002000000000000"
    "000100000001000000700300000007000000080000002f2767272f2762271c000000200000000100000002000000000000000b000000"
    "0000000000000000010000000200000002000000030000006162630300000004000000000000000300000078797a5444536d08000000"
    "691200001300000000000000000000000000000005000000060000000100000003000000717273")


def with_offsets(nxt, raw, body):
    return RC[:12] + struct.pack("<QQ", nxt, raw) + body + RC[207:]


def short_string():
    m = struct.pack("<L", 1) + G.put_str("<", b"/") + struct.pack("<L", 0xFFFFFFFF) + struct.pack("<L", 1) + \
        G.put_str("<", b"n") + struct.pack("<L", 0x20) + G.put_str("<", b"hi")
    m = m[:-1]
    return b"TDSm" + struct.pack("<LlQQ", 2, 4713, len(m), len(m)) + m


STREAMS = [
    ("rc_bytes", RC, True),
    ("trailing byte", RC + b"\x00", False),
    ("27 trailing bytes", RC + RC[:27], False),
    ("wrong tag, segment 1", b"TDSn" + RC[4:], False),
    ("index tag, segment 2", RC[:207] + b"TDSh" + RC[211:], False),
    ("raw offset one too large", with_offsets(179, 142, RC[28:207]), False),
    ("slack byte before raw data", with_offsets(180, 142, RC[28:169] + b"\x00" + RC[169:207]), False),
    ("raw offset one too small", with_offsets(179, 140, RC[28:207]), False),
    ("raw offset beyond next offset", with_offsets(141, 142, RC[28:207]), False),
    ("next offset one too large", with_offsets(180, 141, RC[28:207]), False),
    ("length-unknown marker", RC[:219] + b"\xff" * 8 + RC[227:], False),
    ("short string", short_string(), False),
    ("raw offset without metadata flag", RC[:207] + RC[207:219] + struct.pack("<QQ", 19, 4) + RC[235:], False),
]


def main():
    H.project_sync()
    H.make(["theories/Model/FileParse.vo"], timeout=900)
    cases, obs = [], []
    for name, b, _ in STREAMS:
        impl, ex = G.read_eager(b)
        obs.append((impl, ex))
        cases.append(R.case_all(b, impl))
    codes, errors = P.coq_codes("C01BYTES", "bytes * option (list tok)", "mut_code", cases, "replay", shard=len(cases))
    bad = len(errors)
    for (name, b, want), (impl, ex), c in zip(STREAMS, obs, codes):
        parses = c is not None and c >= 16
        flags = (c - 16) if parses else c
        line_ok = (parses == want) and c is not None and not (parses and flags & 3)
        print("%-34s %4d bytes  parse_file: %-4s  implementation: %-22s  model rd_all: %s   %s" % (
            name, len(b), "Some" if parses else "None",
            "tokens(%d)" % len(impl) if impl is not None else type(ex).__name__,
            "raises" if (flags or 0) & 4 else "ok", "as stated" if line_ok else "UNEXPECTED"))
        bad += not line_ok
    # agreement of model and implementation on ALL streams, accepted by the parser or not
    abad, aerr = H.run_sharded("C01BYTES", R.READER_IMPORTS, "bytes * option (list tok)",
                               "(fun c => agree_all (fst c) (snd c))", cases, shard=len(cases), tag="agree")
    print("reader model vs implementation (agree_all): %d / %d agree" % (len(cases) - len(abad), len(cases)))
    bad += len(abad) + len(aerr)
    for name, out in errors + aerr:
        print("COQ ERROR %s: %s" % (name, out[-1500:]))
    H.cleanup()
    sys.exit(0 if bad == 0 else 1)


if __name__ == "__main__":
    main()
