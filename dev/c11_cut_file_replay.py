"""Replay of Props/C11_cut.v (truncation_values_prefix_daqmx) on the implementation.

dx_file (Props/C11_read.v: two DAQmx segments, an ordinary one; every object in one raw
buffer) and dm_file (Proofs/TruncDaqmxFileEx.v: channel c0 with a scaler in buffer 0 and one
in buffer 1) are cut at every offset 4..len.  For every cut the observation of
TdmsFile.read (tokens of harness/tdmsgen.read_eager) is compared token by token with
Model/Reader.v rd_all evaluated inside Coq (agree_all; where the model's flag is false the
comparison is vacuous and the script prints what the implementation did instead).

Run from the verif root:   PYTHONPATH=/repo /venv/bin/python dev/c11_cut_file_replay.py
Expected last line:        = (<number of cuts>%nat, true)
"""
import os
import re
import subprocess
import sys
import tempfile

ROOT = os.path.dirname(os.path.dirname(os.path.abspath(__file__)))
sys.path.insert(0, os.path.join(ROOT, "harness"))
import common as H           # noqa: E402

H.ensure_env()
import tdmsgen as G          # noqa: E402
import readerlib as R        # noqa: E402

G.silence_logs()
THEORIES = os.path.join(ROOT, "coq", "theories")


def coqc(text, tmp, name):
    path = os.path.join(tmp, name)
    with open(path, "w") as fh:
        fh.write(text)
    return subprocess.run(["timeout", "900", "coqc", "-Q", THEORIES, "NpTdms", path],
                          capture_output=True, text=True, cwd=tmp).stdout


def main():
    names = ["dx_file", "dm_file"]
    with tempfile.TemporaryDirectory() as tmp:
        out = coqc("From Coq Require Import List ZArith.\nImport ListNotations.\n"
                   "From NpTdms Require Import Base.Bytes Model.FileSyn Proofs.ReadCorrectDaqmx "
                   "Proofs.TruncDaqmxFileEx.\nOpen Scope Z_scope.\n" +
                   "".join("Eval vm_compute in (map (fun b => Z.of_N (Byte.to_N b)) (ser_file %s)).\n" % n
                           for n in names), tmp, "dump.v")
        lists = re.findall(r"= \[([0-9;\s]+)\]\s*: list Z", out)
        files = [bytes(int(x) for x in l.replace("\n", " ").split(";")) for l in lists]
        assert len(files) == len(names), out
        cases, flags = [], []
        for name, full in zip(names, files):
            raised = []
            for k in range(4, len(full) + 1):
                toks, ex = G.read_eager(full[:k])
                cases.append(R.case_all(full[:k], toks))
                flags.append((name, k))
                if ex is not None:
                    raised.append((k, type(ex).__name__, str(ex)))
            print(name, len(full), "bytes; cuts on which TdmsFile.read raised:",
                  [(k, t) for k, t, _ in raised] or "none")
            for k, t, m in raised[:1]:
                print("   first:", k, t, m)
        out = coqc(R.READER_IMPORTS + "From Coq Require Import ZArith List String.\nImport ListNotations.\n"
                   "Open Scope string_scope.\nOpen Scope Z_scope.\n"
                   "Definition cases : list (bytes * option (list tok)) := [\n" + ";\n".join(cases) + "].\n"
                   "Eval vm_compute in (map (fun c => match rd_all (fst c) with Ok (_, b) => b | Err _ => true end) cases).\n"
                   "Eval vm_compute in (List.length cases, forallb (fun c => agree_all (fst c) (snd c)) cases).\n",
                   tmp, "cases.v")
        m = re.search(r"= \[([a-z;\s]+)\]\s*: list bool", out)
        bs = [x.strip() == "true" for x in m.group(1).replace("\n", " ").split(";")]
        false_cuts = [fl for fl, b in zip(flags, bs) if not b]
        print("cuts where the model's flag is false (outside the theorem: scalers of one object in "
              "two raw buffers):", false_cuts or "none")
        last = re.findall(r"= \((\d+)%nat, (true|false)\)", out)
        print("= (%s%%nat, %s)" % last[-1])
        return 0 if last and last[-1][1] == "true" else 1


if __name__ == "__main__":
    sys.exit(main())
