#!/venv/bin/python
"""The bytes of Props/C02_gen.v ex_file read by the real TdmsReader: the state [read_metadata_translated_instance] states.

    PYTHONPATH=/repo /venv/bin/python dev/c02_loop_instance.py
"""
import io
import os
import re
import sys

sys.path.insert(0, os.environ.get("NPTDMS_REPO", "/repo"))
from nptdms.reader import TdmsReader        # noqa: E402

here = os.path.dirname(os.path.abspath(__file__))
txt = open(os.path.join(here, "..", "coq", "theories", "Props", "C02_gen.v")).read()
data = bytes.fromhex(re.search(r'Definition ex_file : bytes := hex "([0-9a-f]+)"', txt).group(1))
r = TdmsReader(io.BytesIO(data))
r.read_metadata(require_segment_indexes=True)
segs = [(s.num_chunks, [(o.path, o.has_data) for o in s.ordered_objects]) for s in r._segments]
om = [(k, m.num_values, None if m.data_type is None else m.data_type.enum_value, list(m.properties)) for k, m in r.object_metadata.items()]
print(segs)
print(om)
a, b = "/'g'/'a'", "/'g'/'b'"
assert segs == [(1, [("/", False), (a, True), (b, True)]), (2, [("/", False), (a, True), (b, False)]), (1, [("/", False), (a, True), (b, False)])]
assert om == [("/", 0, None, ["r"]), (a, 8, 3, ["u"]), (b, 1, 32, [])]
print("as stated")
