"""Replay of Props/C06_lazy.v (unknown_length_last_segment) on the implementation.

The byte strings are the values of `ser_file X` and `ser_file_unknown_last X` (X =
tv_file, rc_file, rc2_file, ms_file) as evaluated by Coq (vm_compute); ms_file is a single
segment with a STRING channel and an int32 channel in TWO chunks.  For every cut offset
4 <= k <= len, eager (TdmsFile.read) and lazy (TdmsFile.open + read_data(scaled=False), plus a
few windows) reads of the marker file cut at k are compared with those of the explicit-length
file cut at k: values, len(channel) and file_status must agree for k < len; at k = len the values
agree and the marker file reports an incomplete final segment.

Run: PYTHONPATH=/repo /venv/bin/python dev/c06_unknown_replay.py <files.json>
"""
import io, json, sys, warnings, logging
logging.disable(logging.CRITICAL)
from nptdms import TdmsFile

WINDOWS = [(0, None), (1, None), (3, None), (0, 1), (1, 2), (2, 3), (1, 4)]


def observe(data, lazy):
    with warnings.catch_warnings():
        warnings.simplefilter("ignore")
        f = (TdmsFile.open if lazy else TdmsFile.read)(io.BytesIO(data), raw_timestamps=True)
        out = {}
        for g in f.groups():
            for ch in g.channels():
                if ch.data_type is None:
                    vals = []
                else:
                    d = ch.read_data(scaled=False) if lazy else ch.raw_data
                    vals = [bytes(x, "utf-8") if isinstance(x, str) else x.tobytes() for x in d]
                wins = []
                if lazy and ch.data_type is not None:
                    for (o, l) in WINDOWS:
                        w = ch.read_data(offset=o, length=l, scaled=False)
                        wins.append([bytes(x, "utf-8") if isinstance(x, str) else x.tobytes() for x in w])
                out[ch.path] = (len(ch), vals, wins)
        st = f.file_status
        stat = None
        if st.channel_statuses is not None:
            stat = {p: (int(s.expected_length), int(s.read_length)) for p, s in st.channel_statuses.items()}
        f.close()
        return out, bool(st.incomplete_final_segment), stat


def main():
    files = json.load(open(sys.argv[1]))
    total = bad = 0
    for name in ("tv", "rc", "rc2", "ms"):
        e = bytes.fromhex(files[name + "_e"]); u = bytes.fromhex(files[name + "_u"])
        assert len(e) == len(u)
        diff = [i for i in range(len(e)) if e[i] != u[i]]
        assert len(diff) == 8 and u[diff[0]:diff[0] + 8] == b"\xff" * 8, diff
        for k in range(4, len(e) + 1):
            for lazy in (False, True):
                total += 1
                a = observe(e[:k], lazy); b = observe(u[:k], lazy)
                if k < len(e):
                    ok = a == b
                else:
                    ok = a[0] == b[0] and a[1] is False and b[1] is True
                if not ok:
                    bad += 1
                    print("DIFF", name, "cut", k, "lazy", lazy, a, b)
                if lazy:
                    # lazy = eager on the marker file, and windows are windows of the full read
                    eager = observe(u[:k], False)[0]
                    for p, (ln, vals, wins) in b[0].items():
                        if vals != eager[p][1] or ln != len(vals):
                            bad += 1; print("LAZY/EAGER", name, k, p)
                        for (o, l), w in zip(WINDOWS, wins):
                            if w != (vals[o:] if l is None else vals[o:o + l]):
                                bad += 1; print("WINDOW", name, k, p, o, l)
        print(name, "len", len(e), "marker field at", diff[0], "ok")
    print("comparisons", total, "disagreements", bad)
    sys.exit(1 if bad else 0)


if __name__ == "__main__":
    main()
